(* Carriers.v — concrete numeric carriers for the generic semantics.
   QcOps: exact rationals in canonical form (Leibniz equality), used to state the algebraic
   consequences ("with dt = 0 the states are returned") and to show by computation that the
   hypotheses of the theorems are satisfiable.  The elementary functions have no rational
   semantics; on this carrier they are the constant 0 and the carrier is only used on the rational
   fragment.  The float64 carrier lives in the OCaml driver, the real one in Reals.v. *)
From GX Require Import Base Expr.
From Coq Require Import QArith Qcanon Qround.
Open Scope Qc_scope.

Definition qc_b (b : bool) : Qc := if b then 1 else 0.
Definition qc_nz (a : Qc) : bool := negb (Qc_eq_bool a 0).

(* floored modulo: a - b * floor(a / b) *)
Definition qc_mod (a b : Qc) : Qc :=
  if Qc_eq_bool b 0 then 0 else a - b * Q2Qc (inject_Z (Qfloor (a / b))).

(* integer powers only (rational exponents have no rational semantics) *)
Definition qc_pow (a b : Qc) : Qc :=
  let z := Qfloor b in
  match z with
  | Z0 => 1
  | Zpos p => Qcpower a (Pos.to_nat p)
  | Zneg p => / (Qcpower a (Pos.to_nat p))
  end.

Definition qc_lt (a b : Qc) : bool := match a ?= b with Lt => true | _ => false end.

Definition QcOps : NumOps Qc := {|
  ofQ := Q2Qc;
  cpi := Q2Qc (355 # 113);
  add := Qcplus; sub := Qcminus; mul := Qcmult; div := Qcdiv;
  pow := qc_pow;
  neg := Qcopp;
  fn := fun f a => match f with
                   | Fabs => if qc_lt a 0 then - a else a
                   | Ffloor => Q2Qc (inject_Z (Qfloor a))
                   | _ => 0
                   end;
  fmod := qc_mod;
  rel := fun r a b => qc_b (match r with
                            | Rlt => qc_lt a b | Rgt => qc_lt b a
                            | Rle => negb (qc_lt b a) | Rge => negb (qc_lt a b)
                            | Req => Qc_eq_bool a b | Rne => negb (Qc_eq_bool a b) end);
  bnot := fun a => qc_b (negb (qc_nz a));
  band := fun a b => qc_b (qc_nz a && qc_nz b);
  bor := fun a b => qc_b (qc_nz a || qc_nz b);
  select := fun c a b => if qc_nz c then a else b |}.

(* ---------- algebraic laws a carrier may satisfy ---------- *)
Record RingLaws {T} (N : NumOps T) : Prop := {
  rl_add_comm : forall a b, add N a b = add N b a;
  rl_mul_comm : forall a b, mul N a b = mul N b a;
  rl_mul_zero : forall a, mul N (ofQ N 0) a = ofQ N 0;
  rl_add_zero : forall a, add N a (ofQ N 0) = a }.

Lemma QcOps_ring : RingLaws QcOps.
Proof.
  constructor; simpl; intros.
  - apply Qcplus_comm.
  - apply Qcmult_comm.
  - change (Q2Qc 0) with 0. ring.
  - change (Q2Qc 0) with 0. ring.
Qed.

(* ---------- the C view of the rationals (for computed counterexamples, C02) ---------- *)
Definition qc_ofZ (z : Z) : Qc := Q2Qc (inject_Z z).
Definition qc_trunc (a : Qc) : Qc :=
  if qc_lt a 0 then - Q2Qc (inject_Z (Qfloor (- a))) else Q2Qc (inject_Z (Qfloor a)).
Definition qc_cfmod (a b : Qc) : Qc := if Qc_eq_bool b 0 then 0 else a - b * qc_trunc (a / b).
