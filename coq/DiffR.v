(* DiffR.v — the symbolic derivative D (Schemes.v) is the derivative, over the real numbers
   (Coquelicot's is_derive), of the expression as a function of one name with every other name held
   fixed - on the smooth fragment (+ - * / neg exp sin cos tan atan log sqrt, abs away from 0) and
   at points of its domain.  This is the "g = derivative of the rate with respect to the own state"
   of C06 and the entries of the Jacobian of C20. *)
From Coq Require Import Reals QArith Qreals Lra.
From Coquelicot Require Import Coquelicot.
From GX Require Import Base Expr Schemes RealsC.
Close Scope Q_scope.
Open Scope R_scope.

Definition upd (rho : string -> R) (x : string) (v : R) : string -> R :=
  fun y => if String.eqb y x then v else rho y.

Lemma upd_same rho x : forall y, upd rho x (rho x) y = rho y.
Proof. intros y. unfold upd. destruct (String.eqb_spec y x); subst; reflexivity. Qed.

(* smooth fragment together with the domain conditions at the point rho *)
Fixpoint dom (rho : string -> R) (x : string) (e : expr) : Prop :=
  match e with
  | ENum _ _ | EPi | EVar _ => True
  | EAdd a b | ESub a b | EMul a b => dom rho x a /\ dom rho x b
  | EDiv a b => dom rho x a /\ dom rho x b /\ eval ROps rho b <> 0
  | ENeg a => dom rho x a
  | EFn Fexp a | EFn Fsin a | EFn Fcos a | EFn Fatan a => dom rho x a
  | EFn Ftan a => dom rho x a /\ cos (eval ROps rho a) <> 0
  | EFn Flog a | EFn Fsqrt a => dom rho x a /\ 0 < eval ROps rho a
  | _ => False
  end.

Lemma Q2R_0 : Q2R (inject_Z 0) = 0.
Proof. unfold Q2R; simpl; lra. Qed.
Lemma Q2R_1' : Q2R (inject_Z 1) = 1.
Proof. unfold Q2R; simpl; lra. Qed.
Lemma Q2R_2 : Q2R (inject_Z 2) = 2.
Proof. unfold Q2R; simpl; lra. Qed.

Lemma eval_at rho x e : eval ROps (upd rho x (rho x)) e = eval ROps rho e.
Proof. apply eval_ext. intros y _. apply upd_same. Qed.

Theorem D_sound rho x e :
  dom rho x e ->
  is_derive (fun v => eval ROps (upd rho x v) e) (rho x) (eval ROps rho (D x e)).
Proof.
  induction e; simpl; intros H; try contradiction.
  - (* ENum *) rewrite Q2R_0. apply (is_derive_const (K := R_AbsRing) (V := R_NormedModule)).
  - (* EVar *) unfold upd. destruct (String.eqb_spec x0 x) as [->|Hne].
    + rewrite String.eqb_refl. simpl. rewrite Q2R_1'. apply (is_derive_id (K := R_AbsRing)).
    + destruct (String.eqb_spec x x0) as [E|_]; [congruence|]. simpl. rewrite Q2R_0.
      apply (is_derive_const (K := R_AbsRing) (V := R_NormedModule)).
  - (* EPi *) rewrite Q2R_0. apply (is_derive_const (K := R_AbsRing) (V := R_NormedModule)).
  - (* EAdd *) destruct H as [H1 H2].
    apply (is_derive_plus (K := R_AbsRing) (V := R_NormedModule)); auto.
  - (* ESub *) destruct H as [H1 H2].
    apply (is_derive_minus (K := R_AbsRing) (V := R_NormedModule)); auto.
  - (* EMul *) destruct H as [H1 H2].
    pose proof (Derive.is_derive_mult _ _ _ _ _ (IHe1 H1) (IHe2 H2)) as P. simpl in P.
    rewrite !eval_at in P. exact P.
  - (* EDiv *) destruct H as (H1 & H2 & H3).
    assert (H3' : eval ROps (upd rho x (rho x)) e2 <> 0) by (rewrite eval_at; exact H3).
    pose proof (is_derive_div _ _ _ _ _ (IHe1 H1) (IHe2 H2) H3') as P. simpl in P.
    rewrite !eval_at in P.
    replace ((eval ROps rho (D x e1) * eval ROps rho e2 - eval ROps rho e1 * eval ROps rho (D x e2)) /
             (eval ROps rho e2 * eval ROps rho e2))
      with ((eval ROps rho (D x e1) * eval ROps rho e2 - eval ROps rho e1 * eval ROps rho (D x e2)) /
            (eval ROps rho e2 * (eval ROps rho e2 * 1))) by (f_equal; ring).
    exact P.
  - (* ENeg *) apply (is_derive_opp (K := R_AbsRing) (V := R_NormedModule)); auto.
  - (* EFn *)
    destruct f; simpl in *; try contradiction.
    + (* exp *)
      pose proof (is_derive_comp (K := R_AbsRing) (V := R_NormedModule) exp _ (rho x) _ _
                    (is_derive_exp _) (IHe H)) as P.
      simpl in P. rewrite eval_at in P. unfold scal in P; simpl in P. unfold mult in P; simpl in P.
      rewrite Rmult_comm. exact P.
    + (* cos *)
      pose proof (is_derive_comp (K := R_AbsRing) (V := R_NormedModule) cos _ (rho x) _ _
                    (is_derive_cos _) (IHe H)) as P.
      simpl in P. rewrite eval_at in P. unfold scal in P; simpl in P. unfold mult in P; simpl in P.
      rewrite Rmult_comm. exact P.
    + (* sin *)
      pose proof (is_derive_comp (K := R_AbsRing) (V := R_NormedModule) sin _ (rho x) _ _
                    (is_derive_sin _) (IHe H)) as P.
      simpl in P. rewrite eval_at in P. unfold scal in P; simpl in P. unfold mult in P; simpl in P.
      rewrite Rmult_comm. exact P.
    + (* tan *)
      destruct H as [H Hc].
      assert (Hc' : cos (eval ROps (upd rho x (rho x)) e) <> 0) by (rewrite eval_at; exact Hc).
      pose proof (is_derive_comp (K := R_AbsRing) (V := R_NormedModule) tan _ (rho x) _ _
                    (is_derive_tan _ Hc') (IHe H)) as P.
      simpl in P. rewrite eval_at in P. unfold scal in P; simpl in P. unfold mult in P; simpl in P.
      rewrite Q2R_1'.
      replace ((1 + tan (eval ROps rho e) * tan (eval ROps rho e)) * eval ROps rho (D x e))
        with (eval ROps rho (D x e) * (tan (eval ROps rho e) * (tan (eval ROps rho e) * 1) + 1)) by ring.
      exact P.
    + (* atan *)
      pose proof (is_derive_comp (K := R_AbsRing) (V := R_NormedModule) atan _ (rho x) _ _
                    (is_derive_atan _) (IHe H)) as P.
      simpl in P. rewrite eval_at in P. unfold scal in P; simpl in P. unfold mult in P; simpl in P.
      rewrite Q2R_1'. unfold Rsqr in P. unfold Rdiv. exact P.
    + (* log *)
      destruct H as [H Hp].
      assert (Hp' : 0 < eval ROps (upd rho x (rho x)) e) by (rewrite eval_at; exact Hp).
      pose proof (is_derive_comp (K := R_AbsRing) (V := R_NormedModule) ln _ (rho x) _ _
                    (is_derive_ln _ Hp') (IHe H)) as P.
      simpl in P. rewrite eval_at in P. unfold scal in P; simpl in P. unfold mult in P; simpl in P.
      unfold Rdiv. exact P.
    + (* sqrt *)
      destruct H as [H Hp].
      assert (Hp' : 0 < eval ROps (upd rho x (rho x)) e) by (rewrite eval_at; exact Hp).
      pose proof (is_derive_sqrt _ _ _ (IHe H) Hp') as P. simpl in P. rewrite eval_at in P.
      rewrite Q2R_2. exact P.
Qed.

(* ---------- C06: the Rush-Larsen step converges to the Euler step as dt -> 0 ---------- *)
(* As a function of dt every slot starts at the state (dt = 0) and has slope f there: it agrees with the
   Euler update x + dt*f to first order, i.e. the difference of the two steps is o(dt).  For the plain
   (unguarded) formula this needs g <> 0, which is what the guard, or the "certainly non-zero" verdict
   that replaces it, is there to ensure. *)
Lemma rl_formula_first_order (x f g : R) :
  g <> 0 -> is_derive (fun dt : R => x + f / g * (exp (g * dt) - 1)) 0 f.
Proof.
  intros Hg. auto_derive; [exact I|]. rewrite Rmult_0_r, exp_0. field. exact Hg.
Qed.

Lemma euler_formula_first_order (x f : R) : is_derive (fun dt : R => x + dt * f) 0 f.
Proof. auto_derive; [exact I|]. ring. Qed.

Theorem slot_first_order_is_euler (md : mode) (delta : Q) (x f g : R) :
  (md = MPlain -> g <> 0) -> (0 <= Q2R delta) ->
  slot_value ROps md delta x f g 0 = x
  /\ is_derive (fun dt : R => slot_value ROps md delta x f g dt) 0 f.
Proof.
  intros Hp Hd. destruct md.
  - (* Euler *) split; [unfold slot_value; simpl; ring|].
    apply (is_derive_ext (fun dt : R => x + dt * f)); [intros t; reflexivity|apply euler_formula_first_order].
  - (* guarded: the guard does not depend on dt *)
    destruct (Rlt_dec (Q2R delta) (Rabs g)) as [Hlt|Hge].
    + assert (Hg : g <> 0) by (intros ->; rewrite Rabs_R0 in Hlt; lra).
      split.
      * rewrite guarded_slot_value. destruct (Rlt_dec (Q2R delta) (Rabs g)); [|contradiction].
        rewrite Rmult_0_r, exp_0, Q2R_1. field. exact Hg.
      * apply (is_derive_ext (fun dt : R => x + f / g * (exp (g * dt) - 1))).
        -- intros t. rewrite guarded_slot_value. destruct (Rlt_dec (Q2R delta) (Rabs g)); [|contradiction].
           rewrite Q2R_1. reflexivity.
        -- apply rl_formula_first_order. exact Hg.
    + split.
      * rewrite guarded_slot_value. destruct (Rlt_dec (Q2R delta) (Rabs g)); [contradiction|]. ring.
      * apply (is_derive_ext (fun dt : R => x + dt * f)).
        -- intros t. rewrite guarded_slot_value. destruct (Rlt_dec (Q2R delta) (Rabs g)); [contradiction|]. reflexivity.
        -- apply euler_formula_first_order.
  - (* plain *) specialize (Hp eq_refl). split.
    + unfold slot_value, rl_value, one. simpl. rewrite Rmult_0_r, exp_0, Q2R_1. field. exact Hp.
    + apply (is_derive_ext (fun dt : R => x + f / g * (exp (g * dt) - 1))).
      * intros t. unfold slot_value, rl_value, one. simpl. rewrite Q2R_1. reflexivity.
      * apply rl_formula_first_order. exact Hp.
Qed.
