(* Topo.v — executable mirror of CPython's graphlib.TopologicalSorter as gotranx drives it
   (ode.py: sort_assignments):   sorter.add(name, *deps) for each assignment, then
   tuple(sorter.static_order()).  The order graphlib returns is generation by generation
   (Kahn), ties broken by the insertion order of its _node2info dict and of each successor list;
   both are made explicit here, because they decide gotranx's slot layout. *)
From GX Require Import Base.
Open Scope string_scope.
Open Scope list_scope.
Open Scope Z_scope.

Record ninfo := { npred : Z; succs : list string }.
Definition graph := list (string * ninfo).   (* in dict insertion order *)

Fixpoint g_update (g : graph) (n : string) (f : ninfo -> ninfo) : graph :=
  match g with
  | [] => []
  | (m, i) :: g' => if String.eqb n m then (m, f i) :: g' else (m, i) :: g_update g' n f
  end.

(* TopologicalSorter._get_nodeinfo *)
Definition g_touch (g : graph) (n : string) : graph :=
  match lookup n g with
  | Some _ => g
  | None => (g ++ [(n, {| npred := 0; succs := [] |})])%list
  end.

(* TopologicalSorter.add(node, *predecessors) *)
Definition g_add (g : graph) (node : string) (preds : list string) : graph :=
  let g1 := g_touch g node in
  let g2 := g_update g1 node
              (fun i => {| npred := npred i + Z.of_nat (length preds); succs := succs i |}) in
  fold_left
    (fun g p => g_update (g_touch g p) p
                  (fun i => {| npred := npred i; succs := (succs i ++ [node])%list |}))
    preds g2.

(* TopologicalSorter.done(node): decrement every successor, collect those reaching 0 *)
Definition done_succ (st : graph * list string) (s : string) : graph * list string :=
  let '(g, ready) := st in
  let g' := g_update g s (fun j => {| npred := npred j - 1; succs := succs j |}) in
  match lookup s g' with
  | Some j => if npred j =? 0 then (g', (ready ++ [s])%list) else (g', ready)
  | None => (g', ready)
  end.

Definition done_one (st : graph * list string) (node : string) : graph * list string :=
  match lookup node (fst st) with
  | None => st
  | Some i => fold_left done_succ (succs i) st
  end.

Definition done_all (g : graph) (nodes : list string) : graph * list string :=
  fold_left done_one nodes (g, []).

(* static_order's loop:  while is_active: group = get_ready(); yield from group; done( *group ) *)
Fixpoint kahn (fuel : nat) (g : graph) (ready out : list string) : option (list string) :=
  match ready with
  | [] => Some out
  | _ :: _ =>
      match fuel with
      | O => None
      | S f => let '(g', ready') := done_all g ready in kahn f g' ready' (out ++ ready)%list
      end
  end.

Definition ready0 (g : graph) : list string :=
  map fst (filter (fun ni => npred (snd ni) =? 0) g).

(* None = graphlib.CycleError (prepare() raises iff some cycle exists, i.e. iff Kahn's
   algorithm cannot emit every node) *)
Definition static_order (g : graph) : option (list string) :=
  match kahn (S (length g)) g (ready0 g) [] with
  | Some out => if Nat.eqb (length out) (length g) then Some out else None
  | None => None
  end.

(* ---------- a verified checker for "definition before use" ---------- *)

(* [deps n] = names n reads; [nodes] = the names that must be ordered.  The order is accepted
   iff every node occurs exactly once, nothing else occurs, and every dependency of a node that
   is itself a node occurs strictly earlier. *)
Fixpoint topo_ok_aux (deps : string -> list string) (nodes seen rest : list string) : bool :=
  match rest with
  | [] => true
  | n :: rest' =>
      mem n nodes && negb (mem n seen)
      && forallb (fun d => negb (mem d nodes) || mem d seen) (deps n)
      && topo_ok_aux deps nodes (n :: seen) rest'
  end.

Definition is_topological (deps : string -> list string) (nodes ord : list string) : bool :=
  topo_ok_aux deps nodes [] ord && Nat.eqb (length ord) (length (dedup nodes)).

Close Scope Z_scope.

Lemma topo_ok_aux_spec deps nodes seen rest :
  topo_ok_aux deps nodes seen rest = true ->
  forall pre n post, rest = (pre ++ n :: post) ->
    In n nodes /\ ~ In n seen /\ ~ In n pre /\
    (forall d, In d (deps n) -> In d nodes -> In d seen \/ In d pre).
Proof.
  revert seen; induction rest as [|m rest IH]; intros seen H pre n post E.
  - destruct pre; discriminate.
  - simpl in H. repeat (apply andb_true_iff in H; destruct H as [H ?]).
    destruct pre as [|p pre]; simpl in E; injection E as -> ->.
    + repeat split.
      * apply mem_In; assumption.
      * apply mem_false_In. apply negb_true_iff. assumption.
      * tauto.
      * intros d Hd Hn. left. rewrite forallb_forall in H1. specialize (H1 d Hd).
        apply orb_true_iff in H1. destruct H1 as [H1|H1].
        -- apply negb_true_iff, mem_false_In in H1. contradiction.
        -- apply mem_In; assumption.
    + destruct (IH (p :: seen) H0 pre n post eq_refl) as (Hn & Hs & Hp & Hd).
      repeat split; auto.
      * intros Hc. apply Hs. right. exact Hc.
      * intros [->|Hc]; [apply Hs; left; reflexivity | contradiction].
      * intros d Hdd Hdn. destruct (Hd d Hdd Hdn) as [[->|Hc]|Hc]; [right; left; reflexivity|left; exact Hc|right; right; exact Hc].
Qed.

Lemma topo_ok_aux_NoDup deps nodes seen rest :
  topo_ok_aux deps nodes seen rest = true -> NoDup rest /\ forall n, In n rest -> In n nodes /\ ~ In n seen.
Proof.
  revert seen; induction rest as [|m rest IH]; intros seen H.
  - split; [constructor | intros n []].
  - simpl in H. repeat (apply andb_true_iff in H; destruct H as [H ?]).
    destruct (IH _ H0) as [Hnd Hin]. split.
    + constructor; [|exact Hnd]. intros Hc. apply Hin in Hc. destruct Hc as [_ Hc]. apply Hc. left; reflexivity.
    + intros n [<-|Hn].
      * split; [apply mem_In; assumption | apply mem_false_In, negb_true_iff; assumption].
      * destruct (Hin n Hn) as [Hn1 Hn2]. split; [exact Hn1|]. intros Hc. apply Hn2. right; exact Hc.
Qed.

(* the accepted order lists every node *)
Lemma is_topological_complete deps nodes ord :
  is_topological deps nodes ord = true -> forall n, In n nodes -> In n ord.
Proof.
  unfold is_topological. intros H. apply andb_true_iff in H. destruct H as [H1 H2].
  apply Nat.eqb_eq in H2. destruct (topo_ok_aux_NoDup _ _ _ _ H1) as [Hnd Hin].
  assert (Hincl : incl ord (dedup nodes)).
  { intros x Hx. apply dedup_In. apply Hin. exact Hx. }
  intros n Hn. apply dedup_In in Hn.
  apply (@NoDup_length_incl _ ord (dedup nodes) Hnd); [rewrite H2; apply le_n | exact Hincl | exact Hn].
Qed.
