(* Target.v — the statement skeleton every generated function has (templates/*.py: method),
   and its execution semantics over an arbitrary numeric carrier.

     def f(<args>):
         x = states[i] ...            SUnpackS
         p = parameters[i] ...        SUnpackP
         m = missing_variables[i] ... SUnpackM
         values = zeros(n)
         a = <expr>                   SLet
         values[i] = <expr>           SStore
         return values                                                                  *)
From GX Require Import Base Expr.
From Coq Require Import QArith Ascii.
Close Scope Q_scope.
Open Scope string_scope.
Open Scope list_scope.

Inductive stmt :=
| SUnpackS (x : string) (i : nat)
| SUnpackP (x : string) (i : nat)
| SUnpackM (x : string) (i : nat)
| SLet (x : string) (e : expr)
| SStore (i : nat) (e : expr).

Record func := {
  f_name : string;
  f_args : list string;     (* formal parameters in order, e.g. ["t"; "states"; "parameters"] *)
  f_nret : nat;             (* length of the returned array *)
  f_body : list stmt }.

Section Exec.
  Context {T : Type} (N : NumOps T).

  Record inputs := {
    in_t : T;
    in_dt : T;
    in_states : list T;
    in_params : list T;
    in_missing : list T }.

  Definition tzero : T := ofQ N (inject_Z 0).

  Definition env := list (string * T).

  Definition env_fun (rho : env) : string -> T :=
    fun x => match lookup x rho with Some v => v | None => tzero end.

  Definition bound (rho : env) (e : expr) : bool :=
    forallb (fun x => match lookup x rho with Some _ => true | None => false end) (vars e).

  (* the environment a function body starts in: its scalar formals.  "time" prints as the
     symbol t (ode.py: symbols["time"] = t), so both names denote the time argument. *)
  Definition env0 (inp : inputs) (with_dt : bool) : env :=
    (if with_dt then [("dt", in_dt inp)] else []) ++ [("t", in_t inp); ("time", in_t inp)].

  (* one statement: None models the run-time failure of the real program
     (NameError on an unbound name, IndexError on a slot outside the array) *)
  Definition step (nret : nat) (inp : inputs) (st : env * list (nat * T)) (s : stmt)
    : option (env * list (nat * T)) :=
    let '(rho, vals) := st in
    match s with
    | SUnpackS x i => match nth_error (in_states inp) i with
                      | Some v => Some ((x, v) :: rho, vals) | None => None end
    | SUnpackP x i => match nth_error (in_params inp) i with
                      | Some v => Some ((x, v) :: rho, vals) | None => None end
    | SUnpackM x i => match nth_error (in_missing inp) i with
                      | Some v => Some ((x, v) :: rho, vals) | None => None end
    | SLet x e => if bound rho e then Some ((x, eval N (env_fun rho) e) :: rho, vals) else None
    | SStore i e => if bound rho e && Nat.ltb i nret
                    then Some (rho, (i, eval N (env_fun rho) e) :: vals) else None
    end.

  Fixpoint run (nret : nat) (inp : inputs) (st : env * list (nat * T)) (body : list stmt)
    : option (env * list (nat * T)) :=
    match body with
    | [] => Some st
    | s :: body' => match step nret inp st s with
                    | Some st' => run nret inp st' body'
                    | None => None
                    end
    end.

  Fixpoint lookup_nat (i : nat) (l : list (nat * T)) : option T :=
    match l with
    | [] => None
    | (j, v) :: l' => if Nat.eqb i j then Some v else lookup_nat i l'
    end.

  (* the returned array: slot i holds the last value stored there, 0 if never stored
     (numpy.zeros_like / numpy.zeros) *)
  Definition result (nret : nat) (vals : list (nat * T)) : list T :=
    map (fun i => match lookup_nat i vals with Some v => v | None => tzero end) (seq 0 nret).

  Definition exec (f : func) (with_dt : bool) (inp : inputs) : option (list T) :=
    match run (f_nret f) inp (env0 inp with_dt, []) (f_body f) with
    | Some (_, vals) => Some (result (f_nret f) vals)
    | None => None
    end.

  (* values of every let-bound name at the end of the body (what monitor_values exposes) *)
  Definition exec_env (f : func) (with_dt : bool) (inp : inputs) : option env :=
    match run (f_nret f) inp (env0 inp with_dt, []) (f_body f) with
    | Some (rho, _) => Some rho
    | None => None
    end.
End Exec.

Arguments inputs : clear implicits.
Arguments env : clear implicits.
Arguments in_t {T}. Arguments in_dt {T}. Arguments in_states {T}. Arguments in_params {T}.
Arguments in_missing {T}.

Lemma run_app {T} (N : NumOps T) nret inp st b1 b2 :
  run N nret inp st (b1 ++ b2) =
  match run N nret inp st b1 with Some st' => run N nret inp st' b2 | None => None end.
Proof.
  revert st; induction b1 as [|s b1 IH]; intros st; simpl; [reflexivity|].
  destruct (step N nret inp st s); auto.
Qed.
