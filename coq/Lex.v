(* Lex.v — from characters to the tokens of Parse.v: the terminals of ode.lark that occur in expressions.

     NUMBER   : INT | INT "." INT? | "." INT, each optionally followed by ("e"|"E") ("+"|"-")? INT   (common.lark)
     VARIABLE : ("a".."z"|"A".."Z"|"_") ("a".."z"|"A".."Z"|"_"|"0".."9")*
     "**" "+" "-" "*" "/" "(" ")" ","          longest match, white space (blank, \t, \n, \f, \r) ignored

   [lex] is what the harness runs on the source text of every right-hand side (driver command `parsestr`); the
   result must be the expression Lark's tree stands for.  [render] writes source tokens separated by one blank;
   [lex_render]: the lexer reads every rendered sequence back; [parse_rendered]: characters -> tokens ->
   expression inverts printing followed by rendering, for every writable expression and every way of spelling
   its numbers. *)
From GX Require Import Base Expr Parse.
From Coq Require Import QArith Qpower Lia ZifyBool ZifyN Ascii NArith DecimalString DecimalN.
Open Scope list_scope.
Open Scope string_scope.
Open Scope nat_scope.

(* ---------- character classes ---------- *)
Definition code (c : ascii) : N := N_of_ascii c.
Definition is_digit (c : ascii) : bool := (48 <=? code c)%N && (code c <=? 57)%N.
Definition is_id_start (c : ascii) : bool :=
  ((65 <=? code c)%N && (code c <=? 90)%N) || ((97 <=? code c)%N && (code c <=? 122)%N) || (code c =? 95)%N.
Definition is_id_char (c : ascii) : bool := is_id_start c || is_digit c.
Definition is_space (c : ascii) : bool :=
  (code c =? 32)%N || (code c =? 9)%N || (code c =? 10)%N || (code c =? 12)%N || (code c =? 13)%N.

Fixpoint span (p : ascii -> bool) (s : string) : string * string :=
  match s with
  | EmptyString => (EmptyString, EmptyString)
  | String c r => if p c then let (a, b) := span p r in (String c a, b) else (EmptyString, s)
  end.

Fixpoint digits_val (acc : N) (s : string) : N :=
  match s with
  | EmptyString => acc
  | String c r => digits_val (acc * 10 + (code c - 48))%N r
  end.

(* ---------- numbers ---------- *)
(* mantissa digits m, number of digits behind the point fl, exponent ex: the value m * 10^(ex - fl), in lowest terms *)
Definition pow10 (n : N) : positive :=
  match n with N0 => 1%positive | Npos p => Pos.iter (Pos.mul 10) 1%positive p end.
Definition lit_value (m : N) (fl : N) (ex : Z) : Q :=
  let sh := (ex - Z.of_N fl)%Z in
  if (0 <=? sh)%Z then Qred ((Z.of_N m * Z.pos (pow10 (Z.to_N sh))) # 1)
  else Qred (Z.of_N m # pow10 (Z.to_N (- sh))).

(* the exponent part, if one stands in front of s: ("e"|"E") ("+"|"-")? DIGIT+ ; otherwise nothing is consumed *)
Definition lex_exponent (s : string) : option Z * string :=
  match s with
  | String c r =>
      if (code c =? 101)%N || (code c =? 69)%N then
        let '(neg, r1) := match r with
                          | String c1 r' => if (code c1 =? 45)%N then (true, r')
                                            else if (code c1 =? 43)%N then (false, r') else (false, r)
                          | EmptyString => (false, r)
                          end in
        let (ds, r2) := span is_digit r1 in
        match ds with
        | EmptyString => (None, s)
        | _ => (Some (if neg then (- Z.of_N (digits_val 0 ds))%Z else Z.of_N (digits_val 0 ds)), r2)
        end
      else (None, s)
  | EmptyString => (None, s)
  end.

(* s starts with a digit or a point *)
Definition lex_number (s : string) : option (tok * string) :=
  let (ip, r1) := span is_digit s in
  let '(dot, fp, r2) := match r1 with
                        | String c r' => if (code c =? 46)%N then let (f, r'') := span is_digit r' in (true, f, r'')
                                         else (false, EmptyString, r1)
                        | EmptyString => (false, EmptyString, r1)
                        end in
  match ip, fp with
  | EmptyString, EmptyString => None
  | _, _ =>
      let (ex, r3) := lex_exponent r2 in
      let m := digits_val (digits_val 0 ip) fp in
      let fl := N.of_nat (String.length fp) in
      match ex with
      | None => Some (TNum (lit_value m fl 0) (negb dot), r3)
      | Some e => Some (TNum (lit_value m fl e) false, r3)
      end
  end.

(* ---------- one token, then all of them ---------- *)
Definition lex_one (s : string) : option (tok * string) :=
  match s with
  | EmptyString => None
  | String c r =>
      if is_digit c || (code c =? 46)%N then lex_number s
      else if is_id_start c then let (a, b) := span is_id_char s in Some (TId a, b)
      else if (code c =? 42)%N then
        match r with
        | String c1 r' => if (code c1 =? 42)%N then Some (TPow, r') else Some (TStar, r)
        | EmptyString => Some (TStar, r)
        end
      else if (code c =? 43)%N then Some (TPlus, r)
      else if (code c =? 45)%N then Some (TMinus, r)
      else if (code c =? 47)%N then Some (TSlash, r)
      else if (code c =? 40)%N then Some (TLP, r)
      else if (code c =? 41)%N then Some (TRP, r)
      else if (code c =? 44)%N then Some (TComma, r)
      else None
  end.

Fixpoint skip_space (s : string) : string :=
  match s with
  | String c r => if is_space c then skip_space r else s
  | EmptyString => s
  end.

Fixpoint lex_fuel (n : nat) (s : string) : option (list tok) :=
  match skip_space s with
  | EmptyString => Some []
  | s' => match n with
          | O => None
          | S n' => match lex_one s' with
                    | Some (t, r) => match lex_fuel n' r with Some l => Some (t :: l) | None => None end
                    | None => None
                    end
          end
  end.

(* every token consumes a character: the length is fuel enough *)
Definition lex (s : string) : option (list tok) := lex_fuel (String.length s) s.

Definition parse_string (s : string) : option expr :=
  match lex s with Some ts => parse_expr ts | None => None end.

(* ---------- rendering ---------- *)
(* a source token: numbers as they are spelled (an integer literal, or mantissa and negative decimal exponent) *)
Inductive stok :=
| SInt (n : N)
| SDec (m : N) (e : N)            (* written  <m>e-<e> *)
| SId (s : string)
| SOp (t : tok).                   (* one of the eight operator tokens *)

Definition str_of_N (n : N) : string := NilEmpty.string_of_uint (N.to_uint n).

Definition op_string (t : tok) : string :=
  match t with
  | TPlus => "+" | TMinus => "-" | TStar => "*" | TSlash => "/" | TPow => "**" | TLP => "(" | TRP => ")"
  | TComma => "," | _ => ""
  end.
Definition is_op (t : tok) : bool := match t with TNum _ _ | TId _ => false | _ => true end.

Definition tok_of (t : stok) : tok :=
  match t with
  | SInt n => TNum (lit_value n 0 0) true
  | SDec m e => TNum (lit_value m 0 (- Z.of_N e)) false
  | SId s => TId s
  | SOp t => t
  end.

Definition render_tok (t : stok) : string :=
  match t with
  | SInt n => str_of_N n
  | SDec m e => str_of_N m ++ "e-" ++ str_of_N e
  | SId s => s
  | SOp t => op_string t
  end.

Fixpoint all_chars (p : ascii -> bool) (s : string) : bool :=
  match s with EmptyString => true | String c r => p c && all_chars p r end.

Definition good_id (s : string) : bool :=
  match s with String c r => is_id_start c && all_chars is_id_char r | EmptyString => false end.

Definition good (t : stok) : bool :=
  match t with SId s => good_id s | SOp t => is_op t | _ => true end.

Fixpoint render (l : list stok) : string :=
  match l with
  | [] => EmptyString
  | t :: l' => render_tok t ++ String " " (render l')
  end.

(* ---------- the lexer reads what render writes ---------- *)
Lemma span_all p s rest :
  all_chars p s = true -> match rest with String c _ => p c = false | EmptyString => True end ->
  span p (s ++ rest) = (s, rest).
Proof.
  induction s as [|c s IH]; cbn [all_chars append span]; intros Ha Hr.
  - destruct rest as [|c r]; [reflexivity|]. cbn [span]. rewrite Hr. reflexivity.
  - apply andb_prop in Ha as [Hc Hs]. rewrite Hc, (IH Hs Hr). reflexivity.
Qed.

Lemma digits_uint d : all_chars is_digit (NilEmpty.string_of_uint d) = true.
Proof. induction d; cbn [NilEmpty.string_of_uint all_chars]; try rewrite IHd; reflexivity. Qed.

Lemma digits_val_acc d : forall acc : positive,
  digits_val (Npos acc) (NilEmpty.string_of_uint d) = Npos (Pos.of_uint_acc d acc).
Proof.
  induction d; intros acc; cbn [NilEmpty.string_of_uint digits_val Pos.of_uint_acc]; try reflexivity;
    match goal with |- digits_val ?a _ = _ => let p := fresh in
      evar (p : positive); replace a with (Npos p); [subst p; apply IHd| subst p; vm_compute code; lia] end.
Qed.

Lemma digits_val_uint d : digits_val 0 (NilEmpty.string_of_uint d) = N.of_uint d.
Proof.
  induction d; cbn [NilEmpty.string_of_uint digits_val N.of_uint Pos.of_uint]; try reflexivity;
    try exact IHd;
    match goal with |- digits_val ?a _ = _ => change a with (Npos 1) || change a with (Npos 2) || change a with (Npos 3)
      || change a with (Npos 4) || change a with (Npos 5) || change a with (Npos 6) || change a with (Npos 7)
      || change a with (Npos 8) || change a with (Npos 9) end; apply digits_val_acc.
Qed.

Lemma digits_val_N n : digits_val 0 (str_of_N n) = n.
Proof. unfold str_of_N. rewrite digits_val_uint. apply DecimalN.Unsigned.of_to. Qed.

Lemma str_of_N_digits n : all_chars is_digit (str_of_N n) = true.
Proof. apply digits_uint. Qed.

Lemma str_of_N_nonempty n : exists c r, str_of_N n = String c r /\ is_digit c = true.
Proof.
  unfold str_of_N. pose proof (digits_uint (N.to_uint n)) as H.
  destruct (NilEmpty.string_of_uint (N.to_uint n)) as [|c r] eqn:E.
  - exfalso. assert (Hn : N.to_uint n <> Decimal.Nil).
    { destruct n as [|p]; [discriminate|]. cbn. unfold Pos.to_uint.
      intro A. pose proof (DecimalPos.Unsigned.of_to p) as B. unfold Pos.to_uint in B. rewrite A in B. discriminate. }
    destruct (N.to_uint n); cbn in E; congruence.
  - cbn [all_chars] in H. apply andb_prop in H as [Hc _]. exists c, r. split; [reflexivity|exact Hc].
Qed.

Lemma append_assoc a b c : (a ++ b) ++ c = a ++ (b ++ c).
Proof. induction a as [|x a IH]; cbn [append]; [reflexivity|rewrite IH; reflexivity]. Qed.

Lemma lex_one_digit c r rest : is_digit c = true -> lex_one (String c r ++ rest) = lex_number (String c r ++ rest).
Proof. intros H. cbn [append]. unfold lex_one. rewrite H. reflexivity. Qed.

Arguments lit_value : simpl never.
Arguments digits_val : simpl never.

(* a white-space character is in no other class *)
Lemma space_codes w : is_space w = true ->
  is_digit w = false /\ is_id_char w = false /\ (code w =? 46)%N = false
  /\ ((code w =? 101)%N || (code w =? 69)%N)%bool = false /\ (code w =? 42)%N = false.
Proof. unfold is_space, is_id_char, is_id_start, is_digit. intros H. repeat split; lia. Qed.

Lemma lex_number_int s w rest : is_space w = true -> s <> "" -> all_chars is_digit s = true ->
  lex_number (s ++ String w rest) = Some (TNum (lit_value (digits_val 0 s) 0 0) true, String w rest).
Proof.
  intros Hw Hne Hd. destruct (space_codes w Hw) as (Wd & _ & W46 & We & _).
  unfold lex_number. rewrite (span_all is_digit s (String w rest) Hd Wd).
  destruct s as [|c r]; [congruence|]. cbv beta iota. rewrite W46. cbv beta iota.
  unfold lex_exponent. rewrite We. reflexivity.
Qed.

Lemma lex_number_dec s1 s2 w rest : is_space w = true ->
  s1 <> "" -> all_chars is_digit s1 = true -> s2 <> "" -> all_chars is_digit s2 = true ->
  lex_number (s1 ++ String "e" (String "-" (s2 ++ String w rest)))
  = Some (TNum (lit_value (digits_val 0 s1) 0 (- Z.of_N (digits_val 0 s2))) false, String w rest).
Proof.
  intros Hw Hn1 Hd1 Hn2 Hd2. destruct (space_codes w Hw) as (Wd & _).
  unfold lex_number. rewrite (span_all is_digit s1 (String "e" (String "-" (s2 ++ String w rest))) Hd1 eq_refl).
  destruct s1 as [|c r]; [congruence|]. cbv beta iota.
  change (code "e" =? 46)%N with false. cbv beta iota.
  unfold lex_exponent. change ((code "e" =? 101)%N || (code "e" =? 69)%N) with true. cbv beta iota.
  change (code "-" =? 45)%N with true. cbv beta iota.
  rewrite (span_all is_digit s2 (String w rest) Hd2 Wd).
  destruct s2 as [|c2 r2]; [congruence|]. reflexivity.
Qed.

Lemma str_of_N_ne n : str_of_N n <> "".
Proof. destruct (str_of_N_nonempty n) as (c & r & E & _). rewrite E. discriminate. Qed.

Lemma lex_one_int n w rest : is_space w = true ->
  lex_one (str_of_N n ++ String w rest) = Some (TNum (lit_value n 0 0) true, String w rest).
Proof.
  intros Hw. destruct (str_of_N_nonempty n) as (c & r & E & Hc).
  rewrite E, (lex_one_digit c r _ Hc), <- E.
  rewrite (lex_number_int _ w rest Hw (str_of_N_ne n) (str_of_N_digits n)), digits_val_N. reflexivity.
Qed.

Lemma lex_one_dec m e w rest : is_space w = true ->
  lex_one ((str_of_N m ++ "e-" ++ str_of_N e) ++ String w rest)
  = Some (TNum (lit_value m 0 (- Z.of_N e)) false, String w rest).
Proof.
  intros Hw. destruct (str_of_N_nonempty m) as (c & r & E & Hc).
  rewrite !append_assoc. cbn [append].
  rewrite E, (lex_one_digit c r _ Hc), <- E.
  rewrite (lex_number_dec _ _ w rest Hw (str_of_N_ne m) (str_of_N_digits m) (str_of_N_ne e) (str_of_N_digits e)), !digits_val_N.
  reflexivity.
Qed.

Lemma lex_one_id s w rest : is_space w = true -> good_id s = true ->
  lex_one (s ++ String w rest) = Some (TId s, String w rest).
Proof.
  intros Hw. destruct (space_codes w Hw) as (_ & Wi & _).
  destruct s as [|c r]; [discriminate|]. cbn [good_id]. intros H. apply andb_prop in H as [Hc Hr].
  assert (Hd : is_digit c || (code c =? 46)%N = false).
  { unfold is_id_start, is_digit in *. destruct (code c) as [|p]; [discriminate|]. lia. }
  unfold lex_one. cbn [append]. rewrite Hd, Hc.
  change (String c (r ++ String w rest)) with (String c r ++ String w rest).
  rewrite (span_all is_id_char (String c r) (String w rest)); [reflexivity| |exact Wi].
  cbn [all_chars]. unfold is_id_char at 1. rewrite Hc. exact Hr.
Qed.

Lemma lex_one_op t w rest : is_space w = true -> is_op t = true ->
  lex_one (op_string t ++ String w rest) = Some (t, String w rest).
Proof.
  intros Hw. destruct (space_codes w Hw) as (_ & _ & _ & _ & W42).
  destruct t; try discriminate; intros _; try reflexivity.
  cbn [op_string append]. unfold lex_one. change (is_digit "*" || (code "*" =? 46)%N) with false.
  change (is_id_start "*") with false. change (code "*" =? 42)%N with true. cbv beta iota. rewrite W42. reflexivity.
Qed.

Lemma lex_one_render t w rest : is_space w = true -> good t = true ->
  lex_one (render_tok t ++ String w rest) = Some (tok_of t, String w rest).
Proof.
  intros Hw. destruct t as [n|m e|s|t]; cbn [good render_tok tok_of]; intros H.
  - apply lex_one_int; exact Hw.
  - apply lex_one_dec; exact Hw.
  - apply lex_one_id; assumption.
  - apply lex_one_op; assumption.
Qed.

Lemma render_tok_nonspace t : good t = true ->
  exists c r, render_tok t = String c r /\ is_space c = false.
Proof.
  destruct t as [n|m e|s|t]; cbn [good render_tok]; intros H.
  - destruct (str_of_N_nonempty n) as (c & r & E & Hc). exists c, r. split; [exact E|].
    unfold is_digit, is_space in *. lia.
  - destruct (str_of_N_nonempty m) as (c & r & E & Hc). rewrite E. cbn [append]. eexists _, _. split; [reflexivity|].
    unfold is_digit, is_space in *. lia.
  - destruct s as [|c r]; [discriminate|]. cbn [good_id] in H. apply andb_prop in H as [Hc _].
    exists c, r. split; [reflexivity|]. unfold is_id_start, is_space in *. lia.
  - destruct t; try discriminate; eexists _, _; split; reflexivity.
Qed.

Lemma length_append a b : String.length (a ++ b) = String.length a + String.length b.
Proof. induction a as [|c a IH]; cbn [append String.length]; [reflexivity|rewrite IH; reflexivity]. Qed.

(* ---------- layout: any white space between the tokens ---------- *)
(* a separator: at least one character, blanks / tabs / line feeds / form feeds / carriage returns only *)
Definition sep (w : string) : Prop := w <> "" /\ all_chars is_space w = true.

Fixpoint layout (l : list (stok * string)) : string :=
  match l with
  | [] => EmptyString
  | (t, w) :: l' => render_tok t ++ w ++ layout l'
  end.

Lemma skip_space_all w rest : all_chars is_space w = true -> skip_space (w ++ rest) = skip_space rest.
Proof.
  induction w as [|c w IH]; cbn [all_chars append skip_space]; intros H; [reflexivity|].
  apply andb_prop in H as [Hc Hw]. rewrite Hc. apply IH. exact Hw.
Qed.

Lemma lex_fuel_skip n w rest : all_chars is_space w = true -> lex_fuel n (w ++ rest) = lex_fuel n rest.
Proof. intros H. destruct n; cbn [lex_fuel]; rewrite (skip_space_all w rest H); reflexivity. Qed.

Definition laid (tw : stok * string) : Prop := good (fst tw) = true /\ sep (snd tw).

Lemma lex_fuel_layout l : Forall laid l ->
  forall n, List.length l <= n -> lex_fuel n (layout l) = Some (map (fun tw => tok_of (fst tw)) l).
Proof.
  induction 1 as [|[t w] l [Ht [Hne Hw]] _ IH]; intros n Hn.
  - destruct n; reflexivity.
  - cbn [fst snd] in *. cbn [layout map List.length fst] in *. destruct n as [|n]; [lia|].
    destruct w as [|c w']; [congruence|]. cbn [all_chars] in Hw. apply andb_prop in Hw as [Hc Hw'].
    destruct (render_tok_nonspace t Ht) as (c0 & r0 & E & Hc0).
    cbn [lex_fuel]. rewrite E. cbn [append skip_space]. rewrite Hc0.
    change (String c0 (r0 ++ String c (w' ++ layout l))) with (String c0 r0 ++ String c (w' ++ layout l)). rewrite <- E.
    rewrite (lex_one_render t c (w' ++ layout l) Hc Ht).
    change (String c (w' ++ layout l)) with (String c w' ++ layout l).
    rewrite (lex_fuel_skip n (String c w') (layout l)); [|cbn [all_chars]; rewrite Hc; exact Hw'].
    rewrite (IH n ltac:(lia)). reflexivity.
Qed.

Lemma length_layout l : Forall laid l -> List.length l <= String.length (layout l).
Proof.
  induction 1 as [|[t w] l [Ht [Hne Hw]] _ IH]; cbn [layout List.length String.length]; [lia|].
  rewrite !length_append. cbn [snd] in Hne. destruct w; [congruence|]. cbn [String.length]. lia.
Qed.

(* white space is inert: with any leading white space and any separator after each token - blanks, tabs, line breaks
   (the continuation of an expression over several lines), in any number - the lexer produces the same tokens *)
Theorem lex_layout lead l : all_chars is_space lead = true -> Forall laid l ->
  lex (lead ++ layout l) = Some (map (fun tw => tok_of (fst tw)) l).
Proof.
  intros Hl H. unfold lex. rewrite (lex_fuel_skip _ lead (layout l) Hl).
  apply lex_fuel_layout; [exact H|]. rewrite length_append. pose proof (length_layout l H). lia.
Qed.

Corollary layout_is_inert lead1 lead2 l1 l2 :
  all_chars is_space lead1 = true -> all_chars is_space lead2 = true -> Forall laid l1 -> Forall laid l2 ->
  map fst l1 = map fst l2 -> lex (lead1 ++ layout l1) = lex (lead2 ++ layout l2).
Proof.
  intros H1 H2 F1 F2 E. rewrite (lex_layout lead1 l1 H1 F1), (lex_layout lead2 l2 H2 F2).
  rewrite <- !(map_map fst tok_of), E. reflexivity.
Qed.

Lemma render_layout l : render l = layout (map (fun t => (t, " ")) l).
Proof. induction l as [|t l IH]; cbn [render layout map]; [reflexivity|]. rewrite IH. reflexivity. Qed.

Theorem lex_render l : Forall (fun t => good t = true) l -> lex (render l) = Some (map tok_of l).
Proof.
  intros H. rewrite render_layout. change (layout (map (fun t => (t, " ")) l)) with ("" ++ layout (map (fun t => (t, " ")) l)).
  rewrite lex_layout; [rewrite map_map; reflexivity|reflexivity|].
  apply Forall_map. eapply Forall_impl; [|exact H]. intros t Ht. split; [exact Ht|]. split; [discriminate|reflexivity].
Qed.

(* characters -> tokens -> expression inverts printing and rendering: whatever source spelling l of the printed
   tokens of a writable expression is rendered, the text is read back as that expression *)
Theorem parse_rendered e l :
  writable e -> Forall (fun t => good t = true) l -> map tok_of l = print_expr e ->
  parse_string (render l) = Some e.
Proof.
  intros W G E. unfold parse_string. rewrite (lex_render l G), E. apply parse_print. exact W.
Qed.

(* ---------- a spelling for the tokens of an expression ---------- *)
(* [parse_rendered] speaks about any spelling l of the printed tokens; this section computes one, so that the printer
   can be run: integer tokens as integer literals, other number tokens as <m>e-<k> with the least k that works (the
   value must be a non-negative decimal fraction in lowest terms - as every number token the lexer makes is) *)
Definition Qeqb_struct (a b : Q) : bool := Z.eqb (Qnum a) (Qnum b) && Pos.eqb (Qden a) (Qden b).

Lemma Qeqb_struct_eq a b : Qeqb_struct a b = true -> a = b.
Proof.
  destruct a as [an ad], b as [bn bd]. unfold Qeqb_struct. cbn [Qnum Qden]. intros H.
  apply andb_prop in H as [Hn Hd]. apply Z.eqb_eq in Hn. apply Pos.eqb_eq in Hd. subst. reflexivity.
Qed.

Fixpoint find_scale (fuel : nat) (e : N) (q : Q) : option stok :=
  let (dq, dr) := Z.div_eucl (Z.pos (pow10 e)) (Z.pos (Qden q)) in
  if ((dr =? 0)%Z && (0 <=? Qnum q)%Z)%bool then
    let m := Z.to_N (Qnum q * dq) in
    if Qeqb_struct (lit_value m 0 (- Z.of_N e)) q then Some (SDec m e) else None
  else match fuel with
       | O => None
       | S f => find_scale f (e + 1)%N q
       end.

Definition stok_of_tok (t : tok) : option stok :=
  match t with
  | TNum q true =>
      let n := Z.to_N (Qnum q) in
      if Qeqb_struct (lit_value n 0 0) q then Some (SInt n) else None
  | TNum q false => find_scale (Pos.size_nat (Qden q)) 0 q
  | TId s => if good_id s then Some (SId s) else None
  | t => Some (SOp t)
  end.

Lemma find_scale_ok fuel : forall e q s, find_scale fuel e q = Some s -> tok_of s = TNum q false /\ good s = true.
Proof.
  induction fuel as [|f IH]; intros e q s; cbn [find_scale];
    destruct (Z.div_eucl (Z.pos (pow10 e)) (Z.pos (Qden q))) as [dq dr];
    destruct ((dr =? 0)%Z && (0 <=? Qnum q)%Z)%bool;
    try discriminate; try (apply IH);
    (destruct (Qeqb_struct _ q) eqn:E; [|discriminate]); intros [= <-];
    cbn [tok_of good]; rewrite (Qeqb_struct_eq _ _ E); split; reflexivity.
Qed.

Lemma stok_of_tok_ok t s : stok_of_tok t = Some s -> tok_of s = t /\ good s = true.
Proof.
  destruct t as [q i|x| | | | | | | |]; cbn [stok_of_tok]; try (intros [= <-]; split; reflexivity).
  - destruct i.
    + destruct (Qeqb_struct _ q) eqn:E; [|discriminate]. intros [= <-]. cbn [tok_of good].
      rewrite (Qeqb_struct_eq _ _ E). split; reflexivity.
    + apply find_scale_ok.
  - destruct (good_id x) eqn:E; [|discriminate]. intros [= <-]. cbn [tok_of good]. split; [reflexivity|exact E].
Qed.

Fixpoint spell (ts : list tok) : option (list stok) :=
  match ts with
  | [] => Some []
  | t :: r => match stok_of_tok t, spell r with
              | Some s, Some l => Some (s :: l)
              | _, _ => None
              end
  end.

Lemma spell_ok ts : forall l, spell ts = Some l -> map tok_of l = ts /\ Forall (fun t => good t = true) l.
Proof.
  induction ts as [|t r IH]; cbn [spell]; intros l.
  - intros [= <-]. split; [reflexivity|constructor].
  - destruct (stok_of_tok t) as [s|] eqn:Es; [|discriminate].
    destruct (spell r) as [l'|] eqn:El; [|discriminate]. intros [= <-].
    destruct (stok_of_tok_ok t s Es) as [Ht Hg]. destruct (IH l' eq_refl) as [Hm Hf].
    cbn [map]. rewrite Ht, Hm. split; [reflexivity|constructor; assumption].
Qed.

Definition render_tokens (ts : list tok) : option string :=
  match spell ts with Some l => Some (render l) | None => None end.

Theorem render_tokens_lex ts s : render_tokens ts = Some s -> lex s = Some ts.
Proof.
  unfold render_tokens. destruct (spell ts) as [l|] eqn:E; [|discriminate]. intros [= <-].
  destruct (spell_ok ts l E) as [Hm Hf]. rewrite (lex_render l Hf), Hm. reflexivity.
Qed.

(* the printer down to characters, and the round trip for it *)
Definition render_expr (e : expr) : option string := render_tokens (print_expr e).

Theorem render_expr_parse e s : writable e -> render_expr e = Some s -> parse_string s = Some e.
Proof.
  intros W H. unfold parse_string. rewrite (render_tokens_lex _ _ H). apply parse_print. exact W.
Qed.

(* ---------- the value of a literal ---------- *)
Lemma pow10_Z n : Z.pos (pow10 n) = (10 ^ Z.of_N n)%Z.
Proof.
  destruct n as [|p]; [reflexivity|]. cbn [pow10 Z.of_N].
  change (Pos.iter (Pos.mul 10) 1%positive p) with (10 ^ p)%positive. apply Pos2Z.inj_pow.
Qed.

(* mantissa digits m with fl of them behind the point and exponent ex: the rational m * 10^(ex - fl) *)
Theorem lit_value_spec m fl ex :
  (lit_value m fl ex == inject_Z (Z.of_N m) * inject_Z 10 ^ (ex - Z.of_N fl))%Q.
Proof.
  unfold lit_value. set (sh := (ex - Z.of_N fl)%Z). destruct (0 <=? sh)%Z eqn:E; rewrite Qred_correct.
  - apply Z.leb_le in E. rewrite pow10_Z, Z2N.id by exact E.
    rewrite <- (Zpower_Qpower 10 sh E), <- inject_Z_mult. reflexivity.
  - apply Z.leb_gt in E. rewrite Qmake_Qdiv, pow10_Z, Z2N.id by lia.
    rewrite (Zpower_Qpower 10 (- sh)) by lia. rewrite Qpower_opp. unfold Qdiv. rewrite Qinv_involutive. reflexivity.
Qed.

(* ---------- examples (computed) ---------- *)
Example lex_examples :
  lex "2*x1**-3.50e+1 /(.5+ 1.)" =
    Some [TNum 2 true; TStar; TId "x1"; TPow; TMinus; TNum 35 false; TSlash; TLP;
          TNum (1 # 2) false; TPlus; TNum 1 false; TRP]
  /\ lex "1e2e3" = Some [TNum 100 false; TId "e3"]
  /\ lex "2e" = Some [TNum 2 true; TId "e"]
  /\ lex "1e+ 5" = Some [TNum 1 true; TId "e"; TPlus; TNum 5 true]
  /\ lex "x # y" = None
  /\ lex "1.5e-3" = Some [TNum (3 # 2000) false]
  /\ parse_string "1e2e3" = None
  /\ parse_string "a - b - c ** 2 ** k" =
       Some (ESub (ESub (EVar "a") (EVar "b")) (EPow (EVar "c") (EPow (ENum 2 true) (EVar "k")))).
Proof. vm_compute. repeat split; reflexivity. Qed.

(* the hypotheses of parse_rendered are met by a non-trivial expression *)
Example rendered_example :
  let e := EAdd (EMul (ENum (lit_value 25 0 (-1)) false) (EVar "V_m")) (EFn Fexp (ENeg (ENum (lit_value 3 0 0) true))) in
  let l := [SOp TLP; SOp TLP; SDec 25 1; SOp TRP; SOp TStar; SOp TLP; SId "V_m"; SOp TRP; SOp TRP; SOp TPlus; SOp TLP;
            SId "exp"; SOp TLP; SOp TMinus; SOp TLP; SInt 3; SOp TRP; SOp TRP; SOp TRP] in
  map tok_of l = print_expr e /\ forallb good l = true
  /\ render l = "( ( 25e-1 ) * ( V_m ) ) + ( exp ( - ( 3 ) ) ) " /\ parse_string (render l) = Some e
  /\ render_expr e = Some (render l)
  /\ render_expr (ENum (1 # 3) false) = None.
Proof. vm_compute. repeat split; reflexivity. Qed.

(* layout: a right-hand side continued over lines, with tabs and a carriage return *)
Example layout_example :
  let nl := String (ascii_of_nat 10) EmptyString in
  let tab := String (ascii_of_nat 9) EmptyString in
  let cr := String (ascii_of_nat 13) EmptyString in
  lex (tab ++ "(a" ++ nl ++ "   +" ++ tab ++ "b" ++ cr ++ nl ++ ")*2") = lex "( a + b ) * 2".
Proof. vm_compute. reflexivity. Qed.

