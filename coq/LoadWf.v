(* LoadWf.v — what the loader mirror accepts satisfies the hypotheses of the mirror-compiler theorems
   (MirrorValid.wf_gen), provided no name is one the generated code uses for itself (the check
   CodeGenerator._check_names makes before generating).  Hence, end to end for the model:
   every accepted item list compiles to an rhs / monitor_values / explicit Euler function that
   runs and returns the documented meanings. *)
From GX Require Import Base Expr Topo KahnSound Ode OrderSound Target Sem Codegen Valid Load LoadSound Perm MirrorValid LoadPerm.
From Coq Require Import Lia Permutation Ascii.
Open Scope string_scope.
Open Scope list_scope.

(* ---------- d<state>_dt ---------- *)
Lemma substring_split s : forall k, k <= String.length s ->
  s = String.append (substring 0 k s) (substring k (String.length s - k) s).
Proof.
  induction s as [|c s IH]; intros k Hk; simpl in *.
  - assert (k = 0) by lia. subst k. reflexivity.
  - destruct k as [|k]; simpl.
    + f_equal. clear. induction s as [|c' s IH]; simpl; [reflexivity|]. f_equal. exact IH.
    + f_equal. apply IH. lia.
Qed.

Lemma deriv_state_inv n s : deriv_state n = Some s -> deriv_name_of s = n.
Proof.
  unfold deriv_state, deriv_name_of, suffix_dt.
  destruct (String.eqb (substring 0 1 n) "d") eqn:E1; [|discriminate].
  destruct (String.eqb (substring (String.length n - 3) 3 n) "_dt") eqn:E2; [|discriminate].
  destruct (Nat.leb_spec 5 (String.length n)) as [Hlen|]; [|discriminate]. simpl.
  intros [= <-]. apply String.eqb_eq in E1. apply String.eqb_eq in E2.
  destruct n as [|c r]; [simpl in Hlen; lia|]. simpl in Hlen.
  assert (Hc : c = "d"%char).
  { simpl in E1. destruct r; simpl in E1; injection E1 as ->; reflexivity. }
  subst c.
  replace (String.length (String "d" r) - 3) with (S (String.length r - 3)) in E2 by (simpl; lia).
  replace (String.length (String "d" r) - 4) with (String.length r - 3) by (simpl; lia).
  change (substring (S (String.length r - 3)) 3 (String "d" r)) with (substring (String.length r - 3) 3 r) in E2.
  change (substring 1 (String.length r - 3) (String "d" r)) with (substring 0 (String.length r - 3) r).
  simpl. f_equal.
  pose proof (substring_split r (String.length r - 3) ltac:(lia)) as Hs.
  replace (String.length r - (String.length r - 3)) with 3 in Hs by lia.
  rewrite E2 in Hs. symmetry. exact Hs.
Qed.

(* ---------- what an accepted item list guarantees ---------- *)
Lemma load_inv items o :
  load items = Ok o ->
  exists cs, o = ode_of cs
    /\ handle_assignments cs = Ok tt /\ check_components cs = Ok tt
    /\ name_functional (all_atoms cs) /\ resolve cs = Ok tt.
Proof.
  unfold load, load_comps.
  destruct (transform [] items) as [cs|]; [|discriminate]. simpl.
  destruct (handle_assignments cs) as [[]|] eqn:Eh; [|discriminate]. simpl.
  destruct (check_components cs) as [[]|] eqn:Ec; [|discriminate]. simpl.
  destruct (first_dup (all_atoms cs)) eqn:Ed; [discriminate|].
  destruct (resolve cs) as [[]|] eqn:Er; [|discriminate]. simpl. intros [= <-].
  exists cs. repeat split; try assumption. apply first_dup_iff. exact Ed.
Qed.

Section Loaded.
  Variable cs : list comp.
  Hypothesis HA : handle_assignments cs = Ok tt.
  Hypothesis CC : check_components cs = Ok tt.
  Hypothesis NF : name_functional (all_atoms cs).
  Hypothesis RS : resolve cs = Ok tt.
  Let o := ode_of cs.

  Lemma cs_states_iff d : In d (o_states o) <-> exists c, In c cs /\ In d (c_states c).
  Proof. unfold o, ode_of. simpl. rewrite dedup_decl_In, in_flat_map. tauto. Qed.
  Lemma cs_params_iff d : In d (o_params o) <-> exists c, In c cs /\ In d (c_params c).
  Proof. unfold o, ode_of. simpl. rewrite dedup_decl_In, in_flat_map. tauto. Qed.
  Lemma cs_inters_iff a : In a (o_inters o) <-> exists c, In c cs /\ In a (comp_inters c).
  Proof. unfold o, ode_of. simpl. rewrite dedup_assign_In, in_flat_map. tauto. Qed.
  Lemma cs_derivs_iff a : In a (o_derivs o) <-> exists c, In c cs /\ In a (comp_derivs c).
  Proof. unfold o, ode_of. simpl. rewrite dedup_assign_In, in_flat_map. tauto. Qed.

  Lemma atom_in c x : In c cs -> In x (comp_atoms c) -> In x (all_atoms cs).
  Proof. intros Hc Hx. unfold all_atoms. apply in_flat_map. exists c. auto. Qed.

  Lemma state_atom d : In d (o_states o) -> In (AState d) (all_atoms cs).
  Proof.
    intros H. apply cs_states_iff in H. destruct H as [c [Hc Hd]]. apply (atom_in c _ Hc).
    unfold comp_atoms. apply in_or_app; right; apply in_or_app; left. apply in_map. exact Hd.
  Qed.
  Lemma param_atom d : In d (o_params o) -> In (AParam d) (all_atoms cs).
  Proof.
    intros H. apply cs_params_iff in H. destruct H as [c [Hc Hd]]. apply (atom_in c _ Hc).
    unfold comp_atoms. apply in_or_app; left. apply in_map. exact Hd.
  Qed.
  Lemma inter_atom a : In a (o_inters o) -> In (AInter a) (all_atoms cs).
  Proof.
    intros H. apply cs_inters_iff in H. destruct H as [c [Hc Hd]]. apply (atom_in c _ Hc).
    unfold comp_atoms. apply in_or_app; right; apply in_or_app; right; apply in_or_app; left. apply in_map. exact Hd.
  Qed.
  Lemma deriv_atom a : In a (o_derivs o) -> In (ADeriv a) (all_atoms cs).
  Proof.
    intros H. apply cs_derivs_iff in H. destruct H as [c [Hc Hd]]. apply (atom_in c _ Hc).
    unfold comp_atoms. apply in_or_app; right; apply in_or_app; right; apply in_or_app; right. apply in_map. exact Hd.
  Qed.

  (* the atoms of the model, one list *)
  Definition atoms_of : list atom :=
    map AState (o_states o) ++ map AParam (o_params o) ++ map AInter (o_inters o) ++ map ADeriv (o_derivs o).

  Lemma atoms_of_names : map atom_name atoms_of = all_names o.
  Proof.
    unfold atoms_of, all_names, assigns. rewrite !map_app, !map_map. reflexivity.
  Qed.

  Lemma atoms_of_in x : In x atoms_of -> In x (all_atoms cs).
  Proof.
    unfold atoms_of. rewrite !in_app_iff, !in_map_iff.
    intros [[d [<- H]]|[[d [<- H]]|[[a [<- H]]|[a [<- H]]]]];
      [apply state_atom|apply param_atom|apply inter_atom|apply deriv_atom]; exact H.
  Qed.

  Lemma NoDup_map_constructor {A} (f : A -> atom) l :
    (forall x y, f x = f y -> x = y) -> NoDup l -> NoDup (map f l).
  Proof. intros Hf H. apply NoDup_map_inj_on; [intros x y _ _; apply Hf|exact H]. Qed.

  Lemma atoms_of_NoDup : NoDup atoms_of.
  Proof.
    unfold atoms_of, o, ode_of. simpl.
    repeat (apply NoDup_app_intro);
      try (apply NoDup_map_constructor; [intros x y [= ->]; reflexivity|]; try apply dedup_decl_NoDup; try apply dedup_assign_NoDup).
    all: intros x Hx Hy; rewrite ?in_app_iff, ?in_map_iff in *;
      destruct Hx as [d [<- _]];
      repeat (destruct Hy as [Hy|Hy]); destruct Hy as [d' [E _]]; discriminate.
  Qed.

  Theorem loaded_names_unique : NoDup (all_names o).
  Proof.
    rewrite <- atoms_of_names. apply NoDup_map_inj_on; [|exact atoms_of_NoDup].
    intros x y Hx Hy. apply NF; apply atoms_of_in; assumption.
  Qed.

  (* ---------- states and derivatives pair up ---------- *)
  Lemma deriv_has_state a : In a (o_derivs o) ->
    exists s, deriv_state (a_name a) = Some s /\ In s (map d_name (o_states o)).
  Proof.
    intros H. apply cs_derivs_iff in H. destruct H as [c [Hc Ha]]. unfold comp_derivs in Ha.
    apply filter_In in Ha. destruct Ha as [Ha Hd]. unfold is_deriv in Hd.
    destruct (deriv_state (a_name a)) as [s|] eqn:E; [|discriminate]. exists s. split; [reflexivity|].
    pose proof (handle_assignments_Ok cs HA c a s Hc Ha E) as Hs. unfold has_state in Hs.
    apply existsb_exists in Hs. destruct Hs as [d [Hd1 Hd2]]. apply String.eqb_eq in Hd2.
    apply in_map_iff. exists d. split; [exact Hd2|]. apply cs_states_iff. exists c. auto.
  Qed.

  Lemma state_has_deriv d : In d (o_states o) ->
    exists a, In a (o_derivs o) /\ deriv_state (a_name a) = Some (d_name d).
  Proof.
    intros H. apply cs_states_iff in H. destruct H as [c [Hc Hd]].
    pose proof (check_components_Ok cs CC c Hc) as Hcomp. unfold complete in Hcomp.
    rewrite forallb_forall in Hcomp. specialize (Hcomp d Hd).
    destruct (state_has_derivative_spec c d Hcomp) as [a [Ha Hs]].
    exists a. split; [|exact Hs]. apply cs_derivs_iff. exists c. split; [exact Hc|].
    unfold comp_derivs. apply filter_In. split; [exact Ha|]. unfold is_deriv. rewrite Hs. reflexivity.
  Qed.

  Lemma loaded_W4 n : In n (map a_name (o_derivs o)) -> deriv_name_of (st_of n) = n.
  Proof.
    intros H. apply in_map_iff in H. destruct H as [a [<- Ha]].
    destruct (deriv_has_state a Ha) as [s [Hs _]]. unfold st_of. rewrite Hs. apply deriv_state_inv. exact Hs.
  Qed.

  Lemma loaded_W3 ss : sorted_states o = Some ss -> forall s, In s ss <-> In s (map d_name (o_states o)).
  Proof.
    intros Hss s. rewrite sorted_states_eq in Hss.
    destruct (sorted_names o false) as [ord|] eqn:Eo; [|discriminate]. injection Hss as <-.
    destruct (sorted_names_sound o false ord Eo) as (_ & Hin & Hall & _). split.
    - intros H. apply in_map_iff in H. destruct H as [n [<- Hn]]. apply filter_In in Hn. destruct Hn as [_ Hd].
      unfold is_deriv_name in Hd. apply mem_In in Hd. apply in_map_iff in Hd. destruct Hd as [a [<- Ha]].
      destruct (deriv_has_state a Ha) as [s' [Hs' Hin']]. unfold st_of. rewrite Hs'. exact Hin'.
    - intros H. apply in_map_iff in H. destruct H as [d [<- Hd]].
      destruct (state_has_deriv d Hd) as [a [Ha Hs]]. apply in_map_iff. exists (a_name a). split.
      + unfold st_of. rewrite Hs. reflexivity.
      + apply filter_In. split.
        * apply Hall; [|left; reflexivity]. apply all_assign_names_In. unfold assigns. rewrite map_app.
          apply in_or_app. right. apply in_map. exact Ha.
        * unfold is_deriv_name. apply mem_In. apply in_map. exact Ha.
  Qed.

  (* every symbol is defined, so there are no missing variables *)
  Lemma loaded_no_missing : missing_names o = [].
  Proof.
    unfold resolve in RS.
    destruct (first_missing_symbol (symbols cs) (flat_map (fun a => vars (a_expr a)) (all_assigns cs))) eqn:E; [discriminate|].
    pose proof (first_missing_symbol_None _ _ E) as Hs.
    assert (Hk : forall x, In x (flat_map (fun a => vars (a_expr a)) (assigns o)) -> known_symbol o x = true).
    { intros x Hx. apply in_flat_map in Hx. destruct Hx as [a [Ha Hxa]].
      assert (Haa : In a (all_assigns cs)).
      { unfold assigns in Ha. apply in_app_or in Ha. unfold all_assigns. apply in_flat_map.
        destruct Ha as [Ha|Ha]; [apply cs_inters_iff in Ha|apply cs_derivs_iff in Ha]; destruct Ha as [c [Hc Ha]]; exists c;
          (split; [exact Hc|]); unfold comp_inters, comp_derivs in Ha; apply filter_In in Ha; exact (proj1 Ha). }
      assert (Hsym : In x (symbols cs)) by (apply Hs; apply in_flat_map; exists a; auto).
      unfold symbols in Hsym. apply in_app_or in Hsym. unfold known_symbol.
      destruct Hsym as [Hsym|[<-|[<-|[]]]].
      - apply in_map_iff in Hsym. destruct Hsym as [z [<- Hz]]. unfold all_atoms in Hz. apply in_flat_map in Hz.
        destruct Hz as [c [Hc Hz]]. unfold comp_atoms in Hz. rewrite !in_app_iff, !in_map_iff in Hz.
        destruct Hz as [[d [<- H]]|[[d [<- H]]|[[b [<- H]]|[b [<- H]]]]]; cbn [atom_name].
        + assert (G : mem (d_name d) (map d_name (o_params o)) = true).
          { apply mem_In, in_map. apply cs_params_iff. exists c. auto. }
          rewrite G. reflexivity.
        + assert (G : mem (d_name d) (map d_name (o_states o)) = true).
          { apply mem_In, in_map. apply cs_states_iff. exists c. auto. }
          rewrite G, orb_true_r. reflexivity.
        + assert (G : mem (a_name b) (map a_name (assigns o)) = true).
          { apply mem_In, in_map. unfold assigns. apply in_or_app. left. apply cs_inters_iff. exists c. auto. }
          rewrite G, !orb_true_r. reflexivity.
        + assert (G : mem (a_name b) (map a_name (assigns o)) = true).
          { apply mem_In, in_map. unfold assigns. apply in_or_app. right. apply cs_derivs_iff. exists c. auto. }
          rewrite G, !orb_true_r. reflexivity.
      - rewrite String.eqb_refl, !orb_true_r. reflexivity.
      - rewrite String.eqb_refl, !orb_true_r. reflexivity. }
    unfold missing_names.
    assert (Hf : filter (fun x => negb (known_symbol o x)) (flat_map (fun a => vars (a_expr a)) (assigns o)) = []).
    { induction (flat_map (fun a => vars (a_expr a)) (assigns o)) as [|x l IH]; [reflexivity|].
      simpl. rewrite (Hk x (or_introl eq_refl)). simpl. apply IH. intros y Hy. apply Hk. right. exact Hy. }
    rewrite Hf. reflexivity.
  Qed.
End Loaded.

(* ---------- the boolean ---------- *)
Lemma NoDup_nodupb l : NoDup l -> nodupb l = true.
Proof.
  unfold nodupb. intros H. assert (E : dedup l = l).
  { induction H as [|x l Hx Hnd IH]; simpl; [reflexivity|].
    rewrite (proj2 (mem_false_In x l) Hx), IH. reflexivity. }
  rewrite E. apply Nat.eqb_refl.
Qed.

Theorem load_wf items o ss wd :
  load items = Ok o -> sorted_states o = Some ss ->
  (forall x, In x (all_names o) -> resv wd x = false) ->
  wf_gen o ss wd = true.
Proof.
  intros HL Hss Hres. destruct (load_inv items o HL) as (cs & -> & HA & CC & NF & RS).
  unfold wf_gen. repeat (apply andb_true_iff; split).
  - apply NoDup_nodupb. exact (loaded_names_unique cs NF).
  - apply forallb_forall. intros x Hx. rewrite (Hres x Hx). reflexivity.
  - apply forallb_forall. intros s Hs. apply mem_In. apply (loaded_W3 cs HA CC ss Hss). exact Hs.
  - apply forallb_forall. intros s Hs. apply mem_In. apply (loaded_W3 cs HA CC ss Hss). exact Hs.
  - apply forallb_forall. intros n Hn. apply String.eqb_eq. exact (loaded_W4 cs HA n Hn).
  - rewrite (loaded_no_missing cs RS). reflexivity.
Qed.

(* ---------- text to code, for the model ---------- *)
Theorem accepted_text_compiles_to_a_correct_rhs {T} (N : NumOps T) items o ru order ss f (inp : inputs T) :
  load items = Ok o ->
  (forall x, In x (all_names o) -> resv false x = false) ->
  sorted_states o = Some ss ->
  gen_rhs o ru order = Some f ->
  sizes_ok o ss inp ->
  exists out,
    exec N f false inp = Some out
    /\ length out = length ss
    /\ forall i s, nth_error ss i = Some s ->
         exists v, nth_error out i = Some v /\ Sem N o ss inp false (deriv_name_of s) v.
Proof.
  intros HL Hres Hss Hgen Hsz.
  exact (proj2 (mirror_rhs_correct N o ru order ss f inp Hss (load_wf items o ss false HL Hss Hres) Hgen Hsz)).
Qed.

Theorem accepted_text_compiles_to_a_correct_euler_step {T} (N : NumOps T) items o ru name order ss f (inp : inputs T) :
  CommOps N ->
  load items = Ok o ->
  (forall x, In x (all_names o) -> resv true x = false) ->
  sorted_states o = Some ss ->
  gen_euler o ru name order = Some f ->
  sizes_ok o ss inp ->
  exists out,
    exec N f true inp = Some out
    /\ length out = length ss
    /\ forall i s, nth_error ss i = Some s ->
         exists sv fv,
           nth_error (in_states inp) i = Some sv
           /\ Sem N o ss inp true (deriv_name_of s) fv
           /\ nth_error out i = Some (add N sv (mul N (in_dt inp) fv)).
Proof.
  intros HC HL Hres Hss Hgen Hsz.
  exact (proj2 (mirror_euler_correct N o ru name order ss f inp HC Hss (load_wf items o ss true HL Hss Hres) Hgen Hsz)).
Qed.

Print Assumptions accepted_text_compiles_to_a_correct_rhs.
