(* LoadPerm.v — the loader mirror does not depend on the order in which a model is written (C10):
   if the atomic insertions two item lists perform are a permutation of each other - blocks
   permuted, entries permuted inside a states / parameters block, lines permuted inside an
   expressions block - and the first loads, then the second loads too, to an equivalent model
   (the same states, parameters, intermediates and derivatives up to the order of the lists).
   Together with Perm.v (everything the generators compute is invariant under ode_equiv) this is
   the statement-order independence of the mirror. *)
From GX Require Import Base Expr Topo KahnSound Ode Target Sem Codegen Load LoadSound Perm MirrorValid.
From Coq Require Import Permutation Lia.
Open Scope string_scope.
Open Scope list_scope.

(* ---------- the boolean equalities are equalities ---------- *)
Lemma list_str_eqb_eq a : forall b, list_str_eqb a b = true <-> a = b.
Proof.
  induction a as [|x a IH]; intros [|y b]; simpl; try (split; [discriminate|discriminate]); [tauto|].
  rewrite andb_true_iff, IH, String.eqb_eq. split; [intros [-> ->]; reflexivity|intros [= -> ->]; auto].
Qed.

Lemma opt_str_eqb_eq a b : opt_str_eqb a b = true <-> a = b.
Proof.
  destruct a, b; simpl; try (split; [discriminate|discriminate]); [|tauto].
  rewrite String.eqb_eq. split; [intros ->; reflexivity|intros [= ->]; reflexivity].
Qed.

Lemma expr_eqb_iff a b : expr_eqb a b = true <-> a = b.
Proof. split; [apply expr_eqb_eq|intros ->; apply expr_eqb_refl]. Qed.

Lemma decl_eqb_eq a b : decl_eqb a b = true <-> a = b.
Proof.
  unfold decl_eqb. rewrite !andb_true_iff, String.eqb_eq, expr_eqb_iff, list_str_eqb_eq, !opt_str_eqb_eq.
  destruct a, b; simpl. split; [intros [[[[-> ->] ->] ->] ->]; reflexivity|intros [= -> -> -> -> ->]; auto].
Qed.

Lemma assign_eqb_eq a b : assign_eqb a b = true <-> a = b.
Proof.
  unfold assign_eqb. rewrite !andb_true_iff, String.eqb_eq, expr_eqb_iff, list_str_eqb_eq, !opt_str_eqb_eq.
  destruct a, b; simpl. split; [intros [[[[-> ->] ->] ->] ->]; reflexivity|intros [= -> -> -> -> ->]; auto].
Qed.

Lemma set_eqb_spec a b : set_eqb a b = true <-> (forall x, In x a <-> In x b).
Proof.
  unfold set_eqb. rewrite andb_true_iff, !forallb_forall. split.
  - intros [H1 H2] x. split; intros H; apply mem_In; auto.
  - intros H. split; intros x Hx; apply mem_In, H, Hx.
Qed.

Definition same_key (a b : assign) : Prop := assign_key_eqb a b = true.

Lemma same_key_spec a b :
  same_key a b <->
  a_name a = a_name b /\ (forall x, In x (vars (a_expr a)) <-> In x (vars (a_expr b)))
  /\ a_comps a = a_comps b /\ a_unit a = a_unit b /\ a_comment a = a_comment b.
Proof.
  unfold same_key, assign_key_eqb.
  rewrite !andb_true_iff, String.eqb_eq, set_eqb_spec, list_str_eqb_eq, !opt_str_eqb_eq. tauto.
Qed.

Lemma same_key_refl a : same_key a a.
Proof. apply same_key_spec. repeat split; auto. Qed.
Lemma same_key_sym a b : same_key a b -> same_key b a.
Proof.
  rewrite !same_key_spec. intros (H1 & H2 & H3 & H4 & H5).
  repeat split; auto; intros; apply H2; assumption.
Qed.
Lemma same_key_trans a b c : same_key a b -> same_key b c -> same_key a c.
Proof.
  rewrite !same_key_spec. intros (H1 & H2 & H3 & H4 & H5) (G1 & G2 & G3 & G4 & G5).
  repeat split; try congruence; intros Hx; [apply G2, H2, Hx|apply H2, G2, Hx].
Qed.

(* ---------- ordered-set insertion of declarations ---------- *)
Lemma add_decl_In l d x : In x (add_decl l d) <-> In x l \/ x = d.
Proof.
  unfold add_decl. destruct (existsb (decl_eqb d) l) eqn:E.
  - apply existsb_exists in E. destruct E as [y [Hy He]]. apply decl_eqb_eq in He. subst y.
    split; [auto|intros [H| ->]; assumption].
  - rewrite in_app_iff. simpl. split; [intros [H|[H|[]]]; auto|intros [H|H]; auto].
Qed.

Lemma add_decl_NoDup l d : NoDup l -> NoDup (add_decl l d).
Proof.
  intros H. unfold add_decl. destruct (existsb (decl_eqb d) l) eqn:E; [exact H|].
  apply NoDup_app_intro; [exact H|constructor; [intros []|constructor]|].
  intros x Hx [E0|[]]. subst x. assert (existsb (decl_eqb d) l = true); [|congruence].
  apply existsb_exists. exists d. split; [exact Hx|apply decl_eqb_eq; reflexivity].
Qed.

Lemma fold_add_decl_In ds : forall l x, In x (fold_left add_decl ds l) <-> In x l \/ In x ds.
Proof.
  induction ds as [|d ds IH]; intros l x; simpl; [tauto|].
  rewrite IH, add_decl_In. split; [intros [[H|H]|H]; auto|intros [H|[H|H]]; auto].
Qed.

Lemma fold_add_decl_NoDup ds : forall l, NoDup l -> NoDup (fold_left add_decl ds l).
Proof. induction ds as [|d ds IH]; intros l H; simpl; [exact H|]. apply IH, add_decl_NoDup, H. Qed.

(* ---------- insertion of assignments: fails on two different assignments with one key ---------- *)
Fixpoint fold_assign (l : list assign) (as_ : list assign) : result (list assign) :=
  match as_ with
  | [] => Ok l
  | a :: as' => bind (add_assign l a) (fun l' => fold_assign l' as')
  end.

Definition keyed (l : list assign) : Prop :=
  NoDup l /\ forall a b, In a l -> In b l -> same_key a b -> a = b.

Definition conflict_free (l : list assign) : Prop :=
  forall a b, In a l -> In b l -> same_key a b -> a = b.

Lemma find_key_spec a l :
  keyed l ->
  match find (assign_key_eqb a) l with
  | Some b => In b l /\ same_key a b
  | None => forall b, In b l -> ~ same_key a b
  end.
Proof.
  intros _. destruct (find (assign_key_eqb a) l) as [b|] eqn:E.
  - apply find_some in E. exact E.
  - intros b Hb Hk. pose proof (find_none _ _ E b Hb) as Hc. unfold same_key in Hk. congruence.
Qed.

Lemma add_assign_spec l a :
  keyed l ->
  (conflict_free (a :: l) ->
     exists l', add_assign l a = Ok l' /\ keyed l' /\ forall x, In x l' <-> In x l \/ x = a)
  /\ (forall l', add_assign l a = Ok l' -> conflict_free (a :: l)).
Proof.
  intros HK. pose proof (find_key_spec a l HK) as HF. destruct HK as [Hnd Hk]. unfold add_assign.
  destruct (find (assign_key_eqb a) l) as [b|].
  - destruct HF as [Hb Hab]. split.
    + intros Hcf. assert (a = b) by (apply Hcf; [left; reflexivity|right; exact Hb|exact Hab]). subst b.
      rewrite (proj2 (assign_eqb_eq a a) eq_refl). exists l. split; [reflexivity|]. split; [split; assumption|].
      intros x. split; [auto|intros [H| ->]; assumption].
    + intros l' H. destruct (assign_eqb a b) eqn:E; [|discriminate]. apply assign_eqb_eq in E. subst b.
      intros x y Hx Hy Hxy. destruct Hx as [<-|Hx], Hy as [<-|Hy];
        [reflexivity|apply (Hk _ _ Hb Hy Hxy)|apply (Hk _ _ Hx Hb Hxy)|apply (Hk _ _ Hx Hy Hxy)].
  - split.
    + intros Hcf. exists (l ++ [a]). split; [reflexivity|]. split.
      * split.
        -- apply NoDup_app_intro; [exact Hnd|constructor; [intros []|constructor]|].
           intros x Hx [E0|[]]. subst x. exact (HF a Hx (same_key_refl a)).
        -- intros x y Hx Hy. apply in_app_or in Hx. apply in_app_or in Hy.
           apply Hcf; [destruct Hx as [Hx|[<-|[]]]; [right; exact Hx|left; reflexivity]
                      |destruct Hy as [Hy|[<-|[]]]; [right; exact Hy|left; reflexivity]].
      * intros x. rewrite in_app_iff. simpl. split; [intros [H|[H|[]]]; auto|intros [H|H]; auto].
    + intros l' _ x y Hx Hy Hxy. destruct Hx as [<-|Hx], Hy as [<-|Hy];
        [reflexivity|exfalso; exact (HF y Hy Hxy)|exfalso; exact (HF x Hx (same_key_sym _ _ Hxy))|apply (Hk _ _ Hx Hy Hxy)].
Qed.

Lemma fold_assign_spec as_ : forall l,
  keyed l ->
  (conflict_free (as_ ++ l) ->
     exists l', fold_assign l as_ = Ok l' /\ keyed l' /\ forall x, In x l' <-> In x l \/ In x as_)
  /\ (forall l', fold_assign l as_ = Ok l' -> conflict_free (as_ ++ l)).
Proof.
  induction as_ as [|a as_ IH]; intros l HK; simpl.
  - split.
    + intros _. exists l. split; [reflexivity|]. split; [exact HK|]. intros x. tauto.
    + intros l' _. exact (proj2 HK).
  - destruct (add_assign_spec l a HK) as [A1 A2]. split.
    + intros Hcf.
      assert (Hcf1 : conflict_free (a :: l)).
      { intros x y Hx Hy. apply Hcf; [destruct Hx as [<-|Hx]; [left; reflexivity|right; apply in_or_app; right; exact Hx]
                                     |destruct Hy as [<-|Hy]; [left; reflexivity|right; apply in_or_app; right; exact Hy]]. }
      destruct (A1 Hcf1) as (l1 & E1 & K1 & M1). rewrite E1. simpl.
      destruct (IH l1 K1) as [B1 _].
      assert (Hcf2 : conflict_free (as_ ++ l1)).
      { intros x y Hx Hy. apply Hcf.
        - apply in_app_or in Hx. destruct Hx as [Hx|Hx]; [right; apply in_or_app; left; exact Hx|].
          apply M1 in Hx. destruct Hx as [Hx| ->]; [right; apply in_or_app; right; exact Hx|left; reflexivity].
        - apply in_app_or in Hy. destruct Hy as [Hy|Hy]; [right; apply in_or_app; left; exact Hy|].
          apply M1 in Hy. destruct Hy as [Hy| ->]; [right; apply in_or_app; right; exact Hy|left; reflexivity]. }
      destruct (B1 Hcf2) as (l2 & E2 & K2 & M2). exists l2. split; [exact E2|]. split; [exact K2|].
      intros x. rewrite M2, M1. simpl. split; [intros [[H|H]|H]; auto|intros [H|[H|H]]; auto].
    + intros l' H. destruct (add_assign l a) as [l1|] eqn:E1; [|discriminate]. simpl in H.
      pose proof (A2 l1 eq_refl) as Hcf1.
      assert (K1 : keyed l1 /\ forall x, In x l1 <-> In x l \/ x = a).
      { destruct (A1 Hcf1) as (l1' & E1' & K1 & M1). injection E1' as <-. split; assumption. }
      destruct K1 as [K1 M1]. destruct (IH l1 K1) as [_ B2]. pose proof (B2 l' H) as Hcf2.
      intros x y Hx Hy. apply Hcf2.
      * destruct Hx as [<-|Hx]; [apply in_or_app; right; apply M1; right; reflexivity|].
        apply in_app_or in Hx. apply in_or_app. destruct Hx as [Hx|Hx]; [left; exact Hx|right; apply M1; left; exact Hx].
      * destruct Hy as [<-|Hy]; [apply in_or_app; right; apply M1; right; reflexivity|].
        apply in_app_or in Hy. apply in_or_app. destruct Hy as [Hy|Hy]; [left; exact Hy|right; apply M1; left; exact Hy].
Qed.

(* ---------- the item list as a sequence of atomic insertions ---------- *)
Inductive op := OS (d : decl) | OP (d : decl) | OA (a : assign).

Definition apply_op (o : op) (c : comp) : result comp :=
  match o with OS d => add_state d c | OP d => add_param d c | OA a => add_assignment a c end.

Definition ops_of_item (it : item) : list (string * op) :=
  match it with
  | IStates comps es => flat_map (fun e => map (fun n => (n, OS (decl_of comps e))) comps) es
  | IParams comps es => flat_map (fun e => map (fun n => (n, OP (decl_of comps e))) comps) es
  | IExprs comps ls => flat_map (fun l => map (fun n => (n, OA (assign_of comps l))) comps) ls
  | IComment _ => []
  end.
Definition ops (items : list item) : list (string * op) := flat_map ops_of_item items.

Fixpoint run_ops (cs : list comp) (l : list (string * op)) : result (list comp) :=
  match l with
  | [] => Ok cs
  | (n, o) :: l' => bind (upd_comp cs n (apply_op o)) (fun cs' => run_ops cs' l')
  end.

Lemma run_ops_app l1 : forall cs l2,
  run_ops cs (l1 ++ l2) = bind (run_ops cs l1) (fun cs' => run_ops cs' l2).
Proof.
  induction l1 as [|[n o] l1 IH]; intros cs l2; simpl; [reflexivity|].
  destruct (upd_comp cs n (apply_op o)); simpl; [apply IH|reflexivity].
Qed.

Lemma add_to_comps_run o comps : forall cs,
  add_to_comps cs comps (apply_op o) = run_ops cs (map (fun n => (n, o)) comps).
Proof.
  induction comps as [|n comps IH]; intros cs; simpl; [reflexivity|].
  destruct (upd_comp cs n (apply_op o)); simpl; [apply IH|reflexivity].
Qed.

Lemma add_atoms_run {A} (mk : A -> op) comps (l : list A) : forall cs,
  add_atoms cs comps (fun x => apply_op (mk x)) l
  = run_ops cs (flat_map (fun x => map (fun n => (n, mk x)) comps) l).
Proof.
  induction l as [|x l IH]; intros cs; simpl; [reflexivity|].
  rewrite run_ops_app, add_to_comps_run. destruct (run_ops cs _); simpl; [apply IH|reflexivity].
Qed.

Lemma add_item_run cs it : add_item cs it = run_ops cs (ops_of_item it).
Proof.
  destruct it as [comps es|comps es|comps ls|s]; simpl.
  - apply (add_atoms_run (fun e => OS (decl_of comps e))).
  - apply (add_atoms_run (fun e => OP (decl_of comps e))).
  - apply (add_atoms_run (fun l => OA (assign_of comps l))).
  - reflexivity.
Qed.

Lemma transform_run items : forall cs, transform cs items = run_ops cs (ops items).
Proof.
  induction items as [|it items IH]; intros cs; simpl; [reflexivity|].
  unfold ops. simpl. rewrite run_ops_app, add_item_run. destruct (run_ops cs (ops_of_item it)); simpl; [apply IH|reflexivity].
Qed.

(* ---------- components by name ---------- *)
Definition getc (cs : list comp) (n : string) : comp :=
  match find (fun c => String.eqb (c_name c) n) cs with Some c => c | None => empty_comp n end.
Definition names (cs : list comp) : list string := map c_name cs.

Lemma getc_name cs n : c_name (getc cs n) = n.
Proof.
  unfold getc. destruct (find _ cs) as [c|] eqn:E; [|reflexivity].
  apply find_some in E. apply String.eqb_eq. exact (proj2 E).
Qed.

Lemma apply_op_name o c c' : apply_op o c = Ok c' -> c_name c' = c_name c.
Proof.
  destruct o; simpl; unfold add_state, add_param, add_assignment.
  - intros [= <-]. reflexivity.
  - intros [= <-]. reflexivity.
  - destruct (add_assign (c_assigns c) a); simpl; [intros [= <-]; reflexivity|discriminate].
Qed.

Lemma upd_comp_spec f (Hf : forall c c', f c = Ok c' -> c_name c' = c_name c) n : forall cs,
  match upd_comp cs n f with
  | Ok cs' => f (getc cs n) = Ok (getc cs' n)
              /\ (forall m, m <> n -> getc cs' m = getc cs m)
              /\ (forall m, In m (names cs') <-> In m (names cs) \/ m = n)
              /\ (NoDup (names cs) -> NoDup (names cs'))
  | Err e => f (getc cs n) = Err e
  end.
Proof.
  induction cs as [|c cs IH]; simpl.
  - assert (G : getc [] n = empty_comp n) by reflexivity. rewrite G.
    destruct (f (empty_comp n)) as [c'|e] eqn:E; simpl; [|reflexivity].
    pose proof (Hf _ _ E) as Hn. simpl in Hn. split; [|split; [|split]].
    + unfold getc. simpl. rewrite Hn, String.eqb_refl. reflexivity.
    + intros m Hm. unfold getc. simpl. rewrite Hn. destruct (String.eqb_spec n m); [congruence|reflexivity].
    + intros m. simpl. rewrite Hn. split; [intros [H|[]]; auto|intros [[]|H]; auto].
    + intros _. simpl. constructor; [intros []|constructor].
  - destruct (String.eqb_spec (c_name c) n) as [En|Hne].
    + assert (G : getc (c :: cs) n = c) by (unfold getc; simpl; rewrite En, String.eqb_refl; reflexivity).
      rewrite G. destruct (f c) as [c'|e] eqn:E; simpl; [|reflexivity].
      pose proof (Hf _ _ E) as Hn. split; [|split; [|split]].
      * unfold getc. simpl. rewrite Hn, En, String.eqb_refl. reflexivity.
      * intros m Hm. unfold getc. simpl. rewrite Hn, En. destruct (String.eqb_spec n m); [congruence|reflexivity].
      * intros m. simpl. rewrite Hn, En. split; [intros [H|H]; auto|intros [[H|H]|H]; auto].
      * simpl. rewrite Hn. tauto.
    + destruct (upd_comp cs n f) as [cs'|e] eqn:E; simpl.
      * destruct IH as (I1 & I2 & I3 & I4). split; [|split; [|split]].
        -- unfold getc in *. simpl. destruct (String.eqb_spec (c_name c) n); [contradiction|]. exact I1.
        -- intros m Hm. unfold getc in *. simpl. destruct (String.eqb (c_name c) m); [reflexivity|]. apply I2. exact Hm.
        -- intros m. simpl. rewrite I3. tauto.
        -- simpl. intros Hnd. inversion Hnd as [|? ? Hc Hnd']; subst. constructor; [|apply I4; exact Hnd'].
           intros Hc'. apply I3 in Hc'. destruct Hc' as [Hc'|Hc']; [contradiction|contradiction].
      * unfold getc in *. simpl. destruct (String.eqb_spec (c_name c) n); [contradiction|]. exact IH.
Qed.

(* ---------- one component at a time ---------- *)
Fixpoint run_comp (c : comp) (l : list op) : result comp :=
  match l with
  | [] => Ok c
  | o :: l' => bind (apply_op o c) (fun c' => run_comp c' l')
  end.

Definition proj (n : string) (l : list (string * op)) : list op :=
  map snd (filter (fun p => String.eqb (fst p) n) l).

Lemma run_ops_proj l : forall cs,
  match run_ops cs l with
  | Ok cs' => (forall n, run_comp (getc cs n) (proj n l) = Ok (getc cs' n))
              /\ (forall m, In m (names cs') <-> In m (names cs) \/ In m (map fst l))
              /\ (NoDup (names cs) -> NoDup (names cs'))
  | Err e => exists n e', run_comp (getc cs n) (proj n l) = Err e'
  end.
Proof.
  induction l as [|[n o] l IH]; intros cs; simpl.
  - split; [reflexivity|]. split; [intros m; tauto|auto].
  - pose proof (upd_comp_spec (apply_op o) (apply_op_name o) n cs) as U.
    destruct (upd_comp cs n (apply_op o)) as [cs1|e] eqn:E; simpl.
    + destruct U as (U1 & U2 & U3 & U4). specialize (IH cs1).
      destruct (run_ops cs1 l) as [cs2|e2].
      * destruct IH as (I1 & I2 & I3). split; [|split].
        -- intros m. unfold proj. simpl. destruct (String.eqb_spec n m) as [->|Hne]; simpl.
           ++ rewrite U1. simpl. apply I1.
           ++ rewrite <- (U2 m (not_eq_sym Hne)). apply I1.
        -- intros m. rewrite I2, U3. simpl. split; [intros [[H|H]|H]; auto|intros [H|[H|H]]; auto].
        -- intros H. apply I3, U4, H.
      * destruct IH as (m & e' & He). exists m, e'. unfold proj. simpl.
        destruct (String.eqb_spec n m) as [->|Hne]; simpl.
        -- rewrite U1. simpl. exact He.
        -- rewrite <- (U2 m (not_eq_sym Hne)). exact He.
    + exists n, e. unfold proj. simpl. rewrite String.eqb_refl. simpl. rewrite U. reflexivity.
Qed.

(* the three fields evolve independently *)
Definition sts (l : list op) : list decl := flat_map (fun o => match o with OS d => [d] | _ => [] end) l.
Definition prs (l : list op) : list decl := flat_map (fun o => match o with OP d => [d] | _ => [] end) l.
Definition asg (l : list op) : list assign := flat_map (fun o => match o with OA a => [a] | _ => [] end) l.

Lemma run_comp_spec l : forall c,
  run_comp c l =
  match fold_assign (c_assigns c) (asg l) with
  | Ok la => Ok {| c_name := c_name c; c_states := fold_left add_decl (sts l) (c_states c);
                  c_params := fold_left add_decl (prs l) (c_params c); c_assigns := la |}
  | Err e => Err e
  end.
Proof.
  induction l as [|o l IH]; intros c; simpl.
  - destruct c; reflexivity.
  - destruct o as [d|d|a]; simpl.
    + rewrite IH. reflexivity.
    + rewrite IH. reflexivity.
    + unfold add_assignment. destruct (add_assign (c_assigns c) a) as [la|e]; simpl; [|reflexivity].
      rewrite IH. reflexivity.
Qed.

(* ---------- permuting the insertions ---------- *)
Lemma Permutation_filter' {A} (f : A -> bool) l l' : Permutation l l' -> Permutation (filter f l) (filter f l').
Proof.
  induction 1 as [|x l l' _ IH|x y l|l l' l'' _ IH1 _ IH2]; simpl.
  - constructor.
  - destruct (f x); [constructor; exact IH|exact IH].
  - destruct (f x), (f y); try apply Permutation_refl. apply perm_swap.
  - eapply Permutation_trans; eauto.
Qed.

Lemma proj_perm n l l' : Permutation l l' -> Permutation (proj n l) (proj n l').
Proof. intros H. unfold proj. apply Permutation_map, Permutation_filter', H. Qed.

Lemma flat_map_In_perm {A B} (f : A -> list B) l l' x :
  Permutation l l' -> In x (flat_map f l) -> In x (flat_map f l').
Proof.
  intros HP H. apply in_flat_map in H. destruct H as [y [Hy Hx]]. apply in_flat_map.
  exists y. split; [eapply Permutation_in; eauto|exact Hx].
Qed.

Definition comp_perm (c c' : comp) : Prop :=
  c_name c = c_name c' /\ Permutation (c_states c) (c_states c')
  /\ Permutation (c_params c) (c_params c') /\ Permutation (c_assigns c) (c_assigns c').

Definition comps_equiv (cs cs' : list comp) : Prop :=
  NoDup (names cs) /\ NoDup (names cs')
  /\ (forall n, In n (names cs) <-> In n (names cs'))
  /\ forall n, comp_perm (getc cs n) (getc cs' n).

Lemma keyed_nil : keyed [].
Proof. split; [constructor|intros a b []]. Qed.

Definition same_set {A} (l l' : list A) : Prop := forall x, In x l <-> In x l'.

Lemma flat_map_In_set {A B} (f : A -> list B) l l' x :
  same_set l l' -> In x (flat_map f l) -> In x (flat_map f l').
Proof.
  intros HP H. apply in_flat_map in H. destruct H as [y [Hy Hx]]. apply in_flat_map.
  exists y. split; [apply HP; exact Hy|exact Hx].
Qed.

Lemma same_set_sym {A} (l l' : list A) : same_set l l' -> same_set l' l.
Proof. intros H x. symmetry. apply H. Qed.

(* the result of a component depends only on the set of insertions *)
Lemma run_comp_set n p1 p2 c1 :
  same_set p1 p2 -> run_comp (empty_comp n) p1 = Ok c1 ->
  exists c2, run_comp (empty_comp n) p2 = Ok c2 /\ comp_perm c1 c2.
Proof.
  intros HP H. pose proof (same_set_sym _ _ HP) as HP'.
  rewrite run_comp_spec in H. rewrite run_comp_spec. simpl in *.
  destruct (fold_assign [] (asg p1)) as [la1|] eqn:E1; [|discriminate]. injection H as <-.
  destruct (fold_assign_spec (asg p1) [] keyed_nil) as [A1 A2].
  pose proof (A2 la1 E1) as Hcf1. rewrite app_nil_r in Hcf1.
  destruct (A1 ltac:(rewrite app_nil_r; exact Hcf1)) as (la1' & E1' & K1 & M1).
  rewrite E1 in E1'. injection E1' as <-.
  destruct (fold_assign_spec (asg p2) [] keyed_nil) as [B1 _].
  assert (Hcf2 : conflict_free (asg p2 ++ [])).
  { rewrite app_nil_r. intros a b Ha Hb. apply Hcf1; eapply flat_map_In_set; try eassumption. }
  destruct (B1 Hcf2) as (la2 & E2 & K2 & M2). rewrite E2.
  eexists. split; [reflexivity|]. split; [reflexivity|]. simpl. split; [|split].
  - apply NoDup_Permutation; try (apply fold_add_decl_NoDup; constructor).
    intros x. rewrite !fold_add_decl_In. split; intros [[]|H]; right; eapply flat_map_In_set; try eassumption.
  - apply NoDup_Permutation; try (apply fold_add_decl_NoDup; constructor).
    intros x. rewrite !fold_add_decl_In. split; intros [[]|H]; right; eapply flat_map_In_set; try eassumption.
  - apply NoDup_Permutation; [exact (proj1 K1)|exact (proj1 K2)|].
    intros x. rewrite M1, M2. split; intros [[]|H]; right; eapply flat_map_In_set; try eassumption.
Qed.

Lemma proj_In n l o : In o (proj n l) <-> In (n, o) l.
Proof.
  unfold proj. rewrite in_map_iff. split.
  - intros [[m o'] [E H]]. simpl in E. subst o'. apply filter_In in H. destruct H as [H Hm]. simpl in Hm.
    apply String.eqb_eq in Hm. subst m. exact H.
  - intros H. exists (n, o). split; [reflexivity|]. apply filter_In. split; [exact H|]. simpl. apply String.eqb_refl.
Qed.

Lemma proj_set n l l' : same_set l l' -> same_set (proj n l) (proj n l').
Proof. intros H o. rewrite !proj_In. apply H. Qed.

Theorem run_ops_set l1 l2 cs1 :
  same_set l1 l2 -> run_ops [] l1 = Ok cs1 ->
  exists cs2, run_ops [] l2 = Ok cs2 /\ comps_equiv cs1 cs2.
Proof.
  intros HP H1. pose proof (run_ops_proj l1 []) as R1. rewrite H1 in R1. destruct R1 as (P1 & N1 & D1).
  pose proof (run_ops_proj l2 []) as R2. destruct (run_ops [] l2) as [cs2|e].
  - destruct R2 as (P2 & N2 & D2). exists cs2. split; [reflexivity|].
    split; [apply D1; constructor|]. split; [apply D2; constructor|]. split.
    + intros n. rewrite N1, N2. simpl. rewrite !in_map_iff.
      split; intros [[]|[x [E Hx]]]; right; exists x; (split; [exact E|]); apply HP; exact Hx.
    + intros n. specialize (P1 n). specialize (P2 n).
      destruct (run_comp_set n _ _ _ (proj_set n _ _ HP) P1) as (c2 & E2 & Hc).
      assert (G : getc [] n = empty_comp n) by reflexivity. rewrite G in P2. rewrite E2 in P2. injection P2 as <-. exact Hc.
  - exfalso. destruct R2 as (n & e' & He). specialize (P1 n).
    destruct (run_comp_set n _ _ _ (proj_set n _ _ HP) P1) as (c2 & E2 & _).
    assert (G : getc [] n = empty_comp n) by reflexivity. rewrite G in He. congruence.
Qed.

Lemma perm_same_set {A} (l l' : list A) : Permutation l l' -> same_set l l'.
Proof. intros H x. split; apply Permutation_in; [exact H|apply Permutation_sym, H]. Qed.

Theorem run_ops_perm l1 l2 cs1 :
  Permutation l1 l2 -> run_ops [] l1 = Ok cs1 ->
  exists cs2, run_ops [] l2 = Ok cs2 /\ comps_equiv cs1 cs2.
Proof. intros HP. apply run_ops_set, perm_same_set, HP. Qed.

(* ---------- components of an equivalent list ---------- *)
Lemma getc_In cs c : NoDup (names cs) -> In c cs -> getc cs (c_name c) = c.
Proof.
  unfold getc, names. induction cs as [|c0 cs IH]; intros Hnd Hin; [destruct Hin|].
  simpl in *. inversion Hnd as [|? ? Hc Hnd']; subst. destruct Hin as [->|Hin].
  - rewrite String.eqb_refl. reflexivity.
  - destruct (String.eqb_spec (c_name c0) (c_name c)) as [E|_]; [|apply IH; assumption].
    exfalso. apply Hc. rewrite E. apply in_map. exact Hin.
Qed.

Lemma In_getc cs n : In n (names cs) -> In (getc cs n) cs.
Proof.
  unfold getc, names. intros H. destruct (find (fun c => String.eqb (c_name c) n) cs) as [c|] eqn:E.
  - apply find_some in E. exact (proj1 E).
  - exfalso. apply in_map_iff in H. destruct H as [c [Hn Hc]].
    pose proof (find_none _ _ E c Hc) as Hf. simpl in Hf. rewrite Hn, String.eqb_refl in Hf. discriminate.
Qed.

Lemma equiv_partner cs cs' c' :
  comps_equiv cs cs' -> In c' cs' -> exists c, In c cs /\ comp_perm c c'.
Proof.
  intros (N1 & N2 & Hn & Hc) Hin. exists (getc cs (c_name c')). split.
  - apply In_getc. apply Hn. apply in_map. exact Hin.
  - specialize (Hc (c_name c')). rewrite (getc_In cs' c' N2 Hin) in Hc. exact Hc.
Qed.

Lemma comps_equiv_sym cs cs' : comps_equiv cs cs' -> comps_equiv cs' cs.
Proof.
  intros (N1 & N2 & Hn & Hc). split; [exact N2|]. split; [exact N1|]. split; [intros n; symmetry; apply Hn|].
  intros n. destruct (Hc n) as (A & B & C & D).
  split; [symmetry; exact A|]. split; [|split]; apply Permutation_sym; assumption.
Qed.

(* ---------- each stage of the loader only looks at membership ---------- *)
Lemma has_state_perm c c' s : comp_perm c c' -> has_state c s = true -> has_state c' s = true.
Proof.
  intros (_ & Hs & _) H. unfold has_state in *. apply existsb_exists in H. destruct H as [d [Hd He]].
  apply existsb_exists. exists d. split; [eapply Permutation_in; eauto|exact He].
Qed.

Lemma first_missing_state_None_iff c l :
  first_missing_state c l = None <->
  forall a s, In a l -> deriv_state (a_name a) = Some s -> has_state c s = true.
Proof.
  split; [apply first_missing_state_None|].
  induction l as [|b l IH]; intros H; simpl; [reflexivity|].
  destruct (deriv_state (a_name b)) as [s|] eqn:E.
  - rewrite (H b s (or_introl eq_refl) E). apply IH. intros a s' Ha. apply H. right. exact Ha.
  - apply IH. intros a s' Ha. apply H. right. exact Ha.
Qed.

Lemma handle_assignments_iff cs :
  handle_assignments cs = Ok tt <->
  forall c, In c cs -> first_missing_state c (c_assigns c) = None.
Proof.
  induction cs as [|c0 cs IH]; simpl.
  - split; [intros _ c []|reflexivity].
  - destruct (first_missing_state c0 (c_assigns c0)) eqn:E.
    + split; [discriminate|]. intros H. specialize (H c0 (or_introl eq_refl)). congruence.
    + rewrite IH. split; [intros H c [<-|Hc]; auto|intros H c Hc; apply H; right; exact Hc].
Qed.

Lemma check_components_iff cs :
  check_components cs = Ok tt <-> forall c, In c cs -> complete c = true.
Proof.
  induction cs as [|c0 cs IH]; simpl.
  - split; [intros _ c []|reflexivity].
  - destruct (complete c0) eqn:E.
    + rewrite IH. split; [intros H c [<-|Hc]; auto|intros H c Hc; apply H; right; exact Hc].
    + split; [discriminate|]. intros H. specialize (H c0 (or_introl eq_refl)). congruence.
Qed.

Lemma first_missing_symbol_iff syms l :
  first_missing_symbol syms l = None <-> forall x, In x l -> In x syms.
Proof.
  split; [apply first_missing_symbol_None|].
  induction l as [|y l IH]; intros H; simpl; [reflexivity|].
  rewrite (proj2 (mem_In y syms) (H y (or_introl eq_refl))). apply IH. intros x Hx. apply H. right. exact Hx.
Qed.

Lemma atom_eqb_eq x y : atom_eqb x y = true <-> x = y.
Proof.
  destruct x, y; simpl; try (split; [discriminate|discriminate]);
    rewrite ?decl_eqb_eq, ?assign_eqb_eq; (split; [intros ->; reflexivity|intros [= ->]; reflexivity]).
Qed.

Definition name_functional (l : list atom) : Prop :=
  forall x y, In x l -> In y l -> atom_name x = atom_name y -> x = y.

Lemma first_dup_iff l : first_dup l = None <-> name_functional l.
Proof.
  split.
  - intros H x y Hx Hy Hn. pose proof (first_dup_None l H) as F.
    apply in_split in Hx. destruct Hx as [l1 [l2 E]]. subst l.
    apply in_app_or in Hy. destruct Hy as [Hy|[Hy|Hy]].
    + apply in_split in Hy. destruct Hy as [l3 [l4 E]]. subst l1.
      symmetry. apply atom_eqb_eq. apply (F l3 y (l4 ++ x :: l2)); [rewrite <- app_assoc; reflexivity|apply in_elt|symmetry; exact Hn].
    + exact Hy.
    + apply atom_eqb_eq. apply (F l1 x l2 eq_refl y Hy Hn).
  - induction l as [|z l IH]; intros H; simpl; [reflexivity|].
    destruct (existsb (clashes z) l) eqn:E.
    + exfalso. apply existsb_exists in E. destruct E as [y [Hy Hc]]. unfold clashes in Hc.
      apply andb_true_iff in Hc. destruct Hc as [Hn Hne]. apply String.eqb_eq in Hn.
      assert (z = y) by (apply H; [left; reflexivity|right; exact Hy|exact Hn]). subst y.
      rewrite (proj2 (atom_eqb_eq z z) eq_refl) in Hne. discriminate.
    + apply IH. intros x y Hx Hy. apply H; right; assumption.
Qed.

Lemma comp_atoms_perm c c' x : comp_perm c c' -> In x (comp_atoms c) -> In x (comp_atoms c').
Proof.
  intros (_ & Hs & Hp & Ha) H. unfold comp_atoms, comp_inters, comp_derivs in *.
  rewrite !in_app_iff, !in_map_iff in *.
  destruct H as [[d [E Hd]]|[[d [E Hd]]|[[a [E Hd]]|[a [E Hd]]]]].
  - left. exists d. split; [exact E|eapply Permutation_in; eauto].
  - right. left. exists d. split; [exact E|eapply Permutation_in; eauto].
  - right. right. left. exists a. split; [exact E|]. apply filter_In in Hd. apply filter_In.
    split; [eapply Permutation_in; [exact Ha|exact (proj1 Hd)]|exact (proj2 Hd)].
  - right. right. right. exists a. split; [exact E|]. apply filter_In in Hd. apply filter_In.
    split; [eapply Permutation_in; [exact Ha|exact (proj1 Hd)]|exact (proj2 Hd)].
Qed.

Lemma all_atoms_equiv cs cs' x : comps_equiv cs cs' -> In x (all_atoms cs') -> In x (all_atoms cs).
Proof.
  intros HE H. unfold all_atoms in *. apply in_flat_map in H. destruct H as [c' [Hc' Hx]].
  destruct (equiv_partner cs cs' c' HE Hc') as [c [Hc Hp]]. apply in_flat_map. exists c. split; [exact Hc|].
  apply (comp_atoms_perm c' c); [|exact Hx].
  destruct Hp as (A & B & C & D). split; [symmetry; exact A|]. split; [|split]; apply Permutation_sym; assumption.
Qed.

Lemma all_assigns_equiv cs cs' a : comps_equiv cs cs' -> In a (all_assigns cs') -> In a (all_assigns cs).
Proof.
  intros HE H. unfold all_assigns in *. apply in_flat_map in H. destruct H as [c' [Hc' Hx]].
  destruct (equiv_partner cs cs' c' HE Hc') as [c [Hc (_ & _ & _ & Hp)]]. apply in_flat_map. exists c.
  split; [exact Hc|eapply Permutation_in; [apply Permutation_sym, Hp|exact Hx]].
Qed.

(* find_decl by membership, when names determine declarations *)
Lemma find_decl_functional l s d :
  (forall d1 d2, In d1 l -> In d2 l -> d_name d1 = d_name d2 -> d1 = d2) ->
  (find_decl l s = Some d <-> In d l /\ d_name d = s).
Proof.
  intros HF. unfold find_decl. split.
  - intros H. apply find_some in H. destruct H as [H1 H2]. apply String.eqb_eq in H2. auto.
  - intros [H1 H2]. destruct (find (fun d0 => String.eqb (d_name d0) s) l) as [d'|] eqn:E.
    + apply find_some in E. destruct E as [E1 E2]. apply String.eqb_eq in E2.
      f_equal. apply HF; [exact E1|exact H1|congruence].
    + exfalso. pose proof (find_none _ _ E d H1) as Hc. simpl in Hc. rewrite H2, String.eqb_refl in Hc. discriminate.
Qed.

Lemma complete_perm c c' :
  (forall d1 d2, In d1 (c_states c) -> In d2 (c_states c) -> d_name d1 = d_name d2 -> d1 = d2) ->
  comp_perm c c' -> complete c = true -> complete c' = true.
Proof.
  intros HF (_ & Hs & _ & Ha) H. unfold complete in *. rewrite forallb_forall in *.
  intros d Hd. assert (Hd1 : In d (c_states c)) by (eapply Permutation_in; [apply Permutation_sym, Hs|exact Hd]).
  specialize (H d Hd1). unfold state_has_derivative in *. apply existsb_exists in H. destruct H as [a [Ha1 Hc]].
  apply existsb_exists. exists a. split; [eapply Permutation_in; eauto|].
  destruct (deriv_state (a_name a)) as [s|]; [|discriminate].
  apply andb_true_iff in Hc. destruct Hc as [Hn Hfd]. rewrite Hn. simpl.
  destruct (find_decl (c_states c) s) as [d'|] eqn:E; [|discriminate]. apply decl_eqb_eq in Hfd. subst d'.
  assert (HF' : forall d1 d2, In d1 (c_states c') -> In d2 (c_states c') -> d_name d1 = d_name d2 -> d1 = d2).
  { intros d1 d2 H1 H2. apply HF; eapply Permutation_in; try (apply Permutation_sym, Hs); assumption. }
  apply (find_decl_functional _ s d HF) in E.
  rewrite (proj2 (find_decl_functional _ s d HF') (conj Hd (proj2 E))). apply decl_eqb_eq. reflexivity.
Qed.

(* ---------- the whole loader ---------- *)
Lemma comp_perm_sym c c' : comp_perm c c' -> comp_perm c' c.
Proof.
  intros (A & B & C & D). split; [symmetry; exact A|]. split; [|split]; apply Permutation_sym; assumption.
Qed.

Theorem load_comps_set items1 items2 cs1 :
  same_set (ops items1) (ops items2) ->
  load_comps items1 = Ok cs1 ->
  exists cs2, load_comps items2 = Ok cs2 /\ comps_equiv cs1 cs2.
Proof.
  intros HP H. unfold load_comps in *. rewrite transform_run in *.
  destruct (run_ops [] (ops items1)) as [cs|] eqn:E1; [|discriminate]. simpl in H.
  destruct (handle_assignments cs) as [[]|] eqn:Eh; [|discriminate]. simpl in H.
  destruct (check_components cs) as [[]|] eqn:Ec; [|discriminate]. simpl in H.
  destruct (first_dup (all_atoms cs)) eqn:Ed; [discriminate|].
  destruct (resolve cs) as [[]|] eqn:Er; [|discriminate]. simpl in H. injection H as <-.
  destruct (run_ops_set _ _ cs HP E1) as (cs2 & E2 & HE). rewrite E2. simpl.
  pose proof (comps_equiv_sym _ _ HE) as HE'.
  pose proof (proj1 (first_dup_iff _) Ed) as NF.
  exists cs2. split; [|exact HE].
  (* handle_assignments *)
  assert (Hh : handle_assignments cs2 = Ok tt).
  { apply handle_assignments_iff. intros c2 Hc2. apply first_missing_state_None_iff. intros a s Ha Hs.
    destruct (equiv_partner cs cs2 c2 HE Hc2) as [c1 [Hc1 Hp]].
    apply (has_state_perm c1 c2 s Hp).
    apply (handle_assignments_Ok cs Eh c1 a s Hc1); [|exact Hs].
    destruct Hp as (_ & _ & _ & Hpa). eapply Permutation_in; [apply Permutation_sym, Hpa|exact Ha]. }
  rewrite Hh. simpl.
  (* check_components *)
  assert (Hc : check_components cs2 = Ok tt).
  { apply check_components_iff. intros c2 Hc2.
    destruct (equiv_partner cs cs2 c2 HE Hc2) as [c1 [Hc1 Hp]].
    apply (complete_perm c1 c2); [|exact Hp|exact (check_components_Ok cs Ec c1 Hc1)].
    intros d1 d2 H1 H2 Hn.
    assert (G : AState d1 = AState d2).
    { apply NF; [| |exact Hn]; unfold all_atoms; apply in_flat_map; exists c1; (split; [exact Hc1|]);
        unfold comp_atoms; apply in_or_app; right; apply in_or_app; left; apply in_map; assumption. }
    injection G as ->. reflexivity. }
  rewrite Hc. simpl.
  (* duplicates *)
  assert (Hd : first_dup (all_atoms cs2) = None).
  { apply first_dup_iff. intros x y Hx Hy. apply NF; apply (all_atoms_equiv cs cs2); assumption. }
  rewrite Hd.
  (* resolve *)
  assert (Hr : resolve cs2 = Ok tt).
  { unfold resolve in *.
    destruct (first_missing_symbol (symbols cs) (flat_map (fun a => vars (a_expr a)) (all_assigns cs))) eqn:Es; [discriminate|].
    pose proof (proj1 (first_missing_symbol_iff _ _) Es) as Hs.
    rewrite (proj2 (first_missing_symbol_iff (symbols cs2) _)); [reflexivity|].
    intros x Hx. apply in_flat_map in Hx. destruct Hx as [a [Ha Hxa]].
    assert (Hx1 : In x (symbols cs)).
    { apply Hs. apply in_flat_map. exists a. split; [apply (all_assigns_equiv cs cs2); assumption|exact Hxa]. }
    unfold symbols in *. apply in_app_or in Hx1. apply in_or_app. destruct Hx1 as [Hx1|Hx1]; [left|right; exact Hx1].
    apply in_map_iff in Hx1. destruct Hx1 as [z [Hz1 Hz2]]. apply in_map_iff. exists z. split; [exact Hz1|].
    apply (all_atoms_equiv cs2 cs); assumption. }
  rewrite Hr. reflexivity.
Qed.

Theorem load_comps_perm items1 items2 cs1 :
  Permutation (ops items1) (ops items2) ->
  load_comps items1 = Ok cs1 ->
  exists cs2, load_comps items2 = Ok cs2 /\ comps_equiv cs1 cs2.
Proof. intros HP. apply load_comps_set, perm_same_set, HP. Qed.

Lemma dedup_decl_In l x : In x (dedup_decl l) <-> In x l.
Proof.
  induction l as [|d l IH]; simpl; [tauto|]. destruct (existsb (decl_eqb d) l) eqn:E.
  - rewrite IH. split; [auto|]. intros [<-|H]; [|exact H].
    apply existsb_exists in E. destruct E as [y [Hy He]]. apply decl_eqb_eq in He. subst y. exact Hy.
  - simpl. rewrite IH. tauto.
Qed.
Lemma dedup_decl_NoDup l : NoDup (dedup_decl l).
Proof.
  induction l as [|d l IH]; simpl; [constructor|]. destruct (existsb (decl_eqb d) l) eqn:E; [exact IH|].
  constructor; [|exact IH]. rewrite dedup_decl_In. intros Hc.
  assert (existsb (decl_eqb d) l = true); [|congruence].
  apply existsb_exists. exists d. split; [exact Hc|apply decl_eqb_eq; reflexivity].
Qed.
Lemma dedup_assign_In l x : In x (dedup_assign l) <-> In x l.
Proof.
  induction l as [|d l IH]; simpl; [tauto|]. destruct (existsb (assign_eqb d) l) eqn:E.
  - rewrite IH. split; [auto|]. intros [<-|H]; [|exact H].
    apply existsb_exists in E. destruct E as [y [Hy He]]. apply assign_eqb_eq in He. subst y. exact Hy.
  - simpl. rewrite IH. tauto.
Qed.
Lemma dedup_assign_NoDup l : NoDup (dedup_assign l).
Proof.
  induction l as [|d l IH]; simpl; [constructor|]. destruct (existsb (assign_eqb d) l) eqn:E; [exact IH|].
  constructor; [|exact IH]. rewrite dedup_assign_In. intros Hc.
  assert (existsb (assign_eqb d) l = true); [|congruence].
  apply existsb_exists. exists d. split; [exact Hc|apply assign_eqb_eq; reflexivity].
Qed.

Lemma field_equiv {A} (f : comp -> list A) cs cs' x :
  (forall c c', comp_perm c c' -> forall y, In y (f c) -> In y (f c')) ->
  comps_equiv cs cs' -> In x (flat_map f cs') -> In x (flat_map f cs).
Proof.
  intros Hf HE H. apply in_flat_map in H. destruct H as [c' [Hc' Hx]].
  destruct (equiv_partner cs cs' c' HE Hc') as [c [Hc Hp]]. apply in_flat_map. exists c.
  split; [exact Hc|exact (Hf c' c (comp_perm_sym _ _ Hp) x Hx)].
Qed.

Lemma ode_of_equiv cs cs' : comps_equiv cs cs' -> ode_equiv (ode_of cs) (ode_of cs').
Proof.
  intros HE. pose proof (comps_equiv_sym _ _ HE) as HE'.
  assert (Fs : forall c c', comp_perm c c' -> forall y, In y (c_states c) -> In y (c_states c')).
  { intros c c' (_ & H & _) y. apply Permutation_in. exact H. }
  assert (Fp : forall c c', comp_perm c c' -> forall y, In y (c_params c) -> In y (c_params c')).
  { intros c c' (_ & _ & H & _) y. apply Permutation_in. exact H. }
  assert (Fi : forall c c', comp_perm c c' -> forall y, In y (comp_inters c) -> In y (comp_inters c')).
  { intros c c' (_ & _ & _ & H) y Hy. unfold comp_inters in *. apply filter_In in Hy. apply filter_In.
    split; [eapply Permutation_in; [exact H|exact (proj1 Hy)]|exact (proj2 Hy)]. }
  assert (Fd : forall c c', comp_perm c c' -> forall y, In y (comp_derivs c) -> In y (comp_derivs c')).
  { intros c c' (_ & _ & _ & H) y Hy. unfold comp_derivs in *. apply filter_In in Hy. apply filter_In.
    split; [eapply Permutation_in; [exact H|exact (proj1 Hy)]|exact (proj2 Hy)]. }
  constructor; simpl.
  - apply NoDup_Permutation; try apply dedup_decl_NoDup. intros x. rewrite !dedup_decl_In.
    split; [apply (field_equiv c_states cs' cs x Fs HE')|apply (field_equiv c_states cs cs' x Fs HE)].
  - apply NoDup_Permutation; try apply dedup_decl_NoDup. intros x. rewrite !dedup_decl_In.
    split; [apply (field_equiv c_params cs' cs x Fp HE')|apply (field_equiv c_params cs cs' x Fp HE)].
  - apply NoDup_Permutation; try apply dedup_assign_NoDup. intros x. rewrite !dedup_assign_In.
    split; [apply (field_equiv comp_inters cs' cs x Fi HE')|apply (field_equiv comp_inters cs cs' x Fi HE)].
  - apply NoDup_Permutation; try apply dedup_assign_NoDup. intros x. rewrite !dedup_assign_In.
    split; [apply (field_equiv comp_derivs cs' cs x Fd HE')|apply (field_equiv comp_derivs cs cs' x Fd HE)].
Qed.

(* C10: a text whose insertions are a permutation of those of an accepted text is accepted, and
   loads to an equivalent model *)
Theorem load_perm items1 items2 o1 :
  Permutation (ops items1) (ops items2) ->
  load items1 = Ok o1 ->
  exists o2, load items2 = Ok o2 /\ ode_equiv o1 o2.
Proof.
  intros HP H. unfold load in *.
  destruct (load_comps items1) as [cs1|] eqn:E1; [|discriminate]. simpl in H. injection H as <-.
  destruct (load_comps_perm items1 items2 cs1 HP E1) as (cs2 & E2 & HE). rewrite E2. simpl.
  eexists. split; [reflexivity|]. apply ode_of_equiv. exact HE.
Qed.

Theorem load_set items1 items2 o1 :
  same_set (ops items1) (ops items2) ->
  load items1 = Ok o1 ->
  exists o2, load items2 = Ok o2 /\ ode_equiv o1 o2.
Proof.
  intros HP H. unfold load in *.
  destruct (load_comps items1) as [cs1|] eqn:E1; [|discriminate]. simpl in H. injection H as <-.
  destruct (load_comps_set items1 items2 cs1 HP E1) as (cs2 & E2 & HE). rewrite E2. simpl.
  eexists. split; [reflexivity|]. apply ode_of_equiv. exact HE.
Qed.

(* the permutations the property names are permutations of the insertions *)
Lemma ops_perm_blocks items1 items2 : Permutation items1 items2 -> Permutation (ops items1) (ops items2).
Proof.
  intros H. unfold ops. induction H as [|x l l' _ IH|x y l|l l' l'' _ IH1 _ IH2]; simpl.
  - constructor.
  - apply Permutation_app_head. exact IH.
  - rewrite !app_assoc. apply Permutation_app_tail. apply Permutation_app_comm.
  - eapply Permutation_trans; eauto.
Qed.

Lemma flat_map_perm {A B} (f : A -> list B) l l' : Permutation l l' -> Permutation (flat_map f l) (flat_map f l').
Proof.
  intros H. induction H as [|x l l' _ IH|x y l|l l' l'' _ IH1 _ IH2]; simpl.
  - constructor.
  - apply Permutation_app_head. exact IH.
  - rewrite !app_assoc. apply Permutation_app_tail. apply Permutation_app_comm.
  - eapply Permutation_trans; eauto.
Qed.

Lemma ops_perm_entries pre post comps es es' :
  Permutation es es' ->
  Permutation (ops (pre ++ IStates comps es :: post)) (ops (pre ++ IStates comps es' :: post))
  /\ Permutation (ops (pre ++ IParams comps es :: post)) (ops (pre ++ IParams comps es' :: post)).
Proof.
  intros H. unfold ops. rewrite !flat_map_app. simpl.
  split; apply Permutation_app_head, Permutation_app_tail, flat_map_perm, H.
Qed.

Lemma ops_perm_lines pre post comps ls ls' :
  Permutation ls ls' ->
  Permutation (ops (pre ++ IExprs comps ls :: post)) (ops (pre ++ IExprs comps ls' :: post)).
Proof.
  intros H. unfold ops. rewrite !flat_map_app. simpl.
  apply Permutation_app_head, Permutation_app_tail, flat_map_perm, H.
Qed.


(* ---------- accepted models have one assignment per name ---------- *)
Lemma load_unique_assign_names items o : load items = Ok o -> unique_assign_names o.
Proof.
  unfold load, load_comps. rewrite transform_run.
  destruct (run_ops [] (ops items)) as [cs|]; [|discriminate]. simpl.
  destruct (handle_assignments cs) as [[]|]; [|discriminate]. simpl.
  destruct (check_components cs) as [[]|]; [|discriminate]. simpl.
  destruct (first_dup (all_atoms cs)) eqn:Ed; [discriminate|].
  destruct (resolve cs) as [[]|]; [|discriminate]. simpl. intros [= <-].
  pose proof (proj1 (first_dup_iff _) Ed) as NF.
  unfold unique_assign_names, assigns, ode_of. simpl.
  assert (Hi : forall a, In a (dedup_assign (flat_map comp_inters cs)) -> In (AInter a) (all_atoms cs)).
  { intros a Ha. rewrite dedup_assign_In in Ha. apply in_flat_map in Ha. destruct Ha as [c [Hc Ha]].
    unfold all_atoms. apply in_flat_map. exists c. split; [exact Hc|]. unfold comp_atoms.
    apply in_or_app; right; apply in_or_app; right; apply in_or_app; left. apply in_map. exact Ha. }
  assert (Hd : forall a, In a (dedup_assign (flat_map comp_derivs cs)) -> In (ADeriv a) (all_atoms cs)).
  { intros a Ha. rewrite dedup_assign_In in Ha. apply in_flat_map in Ha. destruct Ha as [c [Hc Ha]].
    unfold all_atoms. apply in_flat_map. exists c. split; [exact Hc|]. unfold comp_atoms.
    apply in_or_app; right; apply in_or_app; right; apply in_or_app; right. apply in_map. exact Ha. }
  apply NoDup_map_inj_on.
  - intros a b Ha Hb Hn. apply in_app_or in Ha. apply in_app_or in Hb.
    destruct Ha as [Ha|Ha], Hb as [Hb|Hb].
    + assert (G : AInter a = AInter b) by (apply NF; auto). injection G as ->. reflexivity.
    + assert (G : AInter a = ADeriv b) by (apply NF; auto). discriminate.
    + assert (G : ADeriv a = AInter b) by (apply NF; auto). discriminate.
    + assert (G : ADeriv a = ADeriv b) by (apply NF; auto). injection G as ->. reflexivity.
  - apply NoDup_app_intro; try apply dedup_assign_NoDup.
    intros a Ha Hb. assert (G : AInter a = ADeriv a) by (apply NF; auto). discriminate.
Qed.

(* ---------- C10, end to end for the mirror ---------- *)
Theorem permuted_text_same_code items1 items2 o1 :
  Permutation (ops items1) (ops items2) ->
  load items1 = Ok o1 ->
  exists o2, load items2 = Ok o2
    /\ ode_equiv o1 o2
    /\ (forall ru, sorted_names o1 ru = sorted_names o2 ru)
    /\ sorted_states o1 = sorted_states o2
    /\ param_names o1 = param_names o2 /\ missing_names o1 = missing_names o2
    /\ (forall ru order, gen_rhs o1 ru order = gen_rhs o2 ru order)
    /\ (forall ru order, gen_monitor o1 ru order = gen_monitor o2 ru order)
    /\ (forall ru name order, gen_euler o1 ru name order = gen_euler o2 ru name order).
Proof.
  intros HP H. destruct (load_perm items1 items2 o1 HP H) as (o2 & E2 & HE).
  pose proof (load_unique_assign_names items1 o1 H) as U.
  exists o2. split; [exact E2|]. split; [exact HE|]. repeat split.
  - exact (sorted_names_inv o1 o2 HE U).
  - exact (sorted_states_inv o1 o2 HE U).
  - exact (param_names_inv o1 o2 HE).
  - exact (missing_names_inv o1 o2 HE).
  - exact (gen_rhs_inv o1 o2 HE U).
  - exact (gen_monitor_inv o1 o2 HE U).
  - exact (gen_euler_inv o1 o2 HE U).
Qed.

Print Assumptions permuted_text_same_code.
