(* SaveLoad.v — saving a loaded model and loading it back gives the same model (C11, for the mirror):
   the writer groups the atoms by their component tuple, one block per group; the insertions the
   loader performs for those blocks are, as a set, the insertions it performed for the original
   text, and the loader's result depends only on that set (LoadPerm.load_set). *)
From GX Require Import Base Expr Topo KahnSound Ode Target Sem Codegen Load LoadSound Perm MirrorValid LoadPerm Save.
From Coq Require Import Permutation Lia.
Open Scope string_scope.
Open Scope list_scope.

Lemma decl_of_entry d : decl_of (d_comps d) (entry_of_decl d) = d.
Proof. destruct d; reflexivity. Qed.
Lemma assign_of_line a : assign_of (a_comps a) (line_of_assign a) = a.
Proof. destruct a; reflexivity. Qed.

(* ---------- the insertions of an item list ---------- *)
Lemma ops_In items n o :
  In (n, o) (ops items) <->
  (exists comps es e, In (IStates comps es) items /\ In e es /\ In n comps /\ o = OS (decl_of comps e))
  \/ (exists comps es e, In (IParams comps es) items /\ In e es /\ In n comps /\ o = OP (decl_of comps e))
  \/ (exists comps ls l, In (IExprs comps ls) items /\ In l ls /\ In n comps /\ o = OA (assign_of comps l)).
Proof.
  unfold ops. rewrite in_flat_map. split.
  - intros [it [Hit H]]. destruct it as [comps es|comps es|comps ls|s]; simpl in H.
    + left. apply in_flat_map in H. destruct H as [e [He H]]. apply in_map_iff in H. destruct H as [m [[= <- <-] Hm]].
      exists comps, es, e. auto.
    + right. left. apply in_flat_map in H. destruct H as [e [He H]]. apply in_map_iff in H. destruct H as [m [[= <- <-] Hm]].
      exists comps, es, e. auto.
    + right. right. apply in_flat_map in H. destruct H as [e [He H]]. apply in_map_iff in H. destruct H as [m [[= <- <-] Hm]].
      exists comps, ls, e. auto.
    + destruct H.
  - intros [(comps & es & e & H1 & H2 & H3 & ->)|[(comps & es & e & H1 & H2 & H3 & ->)|(comps & ls & l & H1 & H2 & H3 & ->)]].
    + exists (IStates comps es). split; [exact H1|]. simpl. apply in_flat_map. exists e. split; [exact H2|].
      apply in_map_iff. exists n. auto.
    + exists (IParams comps es). split; [exact H1|]. simpl. apply in_flat_map. exists e. split; [exact H2|].
      apply in_map_iff. exists n. auto.
    + exists (IExprs comps ls). split; [exact H1|]. simpl. apply in_flat_map. exists l. split; [exact H2|].
      apply in_map_iff. exists n. auto.
Qed.

(* an atom is inserted into every component of its own tuple, and only there *)
Lemma ops_OS_closed items m d :
  In (m, OS d) (ops items) -> In m (d_comps d) /\ forall n, In n (d_comps d) -> In (n, OS d) (ops items).
Proof.
  intros H. apply ops_In in H.
  destruct H as [(comps & es & e & H1 & H2 & H3 & E)|[(comps & es & e & H1 & H2 & H3 & E)|(comps & ls & l & H1 & H2 & H3 & E)]]; try discriminate.
  injection E as ->. simpl. split; [exact H3|]. intros n Hn. apply ops_In. left. exists comps, es, e. auto.
Qed.
Lemma ops_OP_closed items m d :
  In (m, OP d) (ops items) -> In m (d_comps d) /\ forall n, In n (d_comps d) -> In (n, OP d) (ops items).
Proof.
  intros H. apply ops_In in H.
  destruct H as [(comps & es & e & H1 & H2 & H3 & E)|[(comps & es & e & H1 & H2 & H3 & E)|(comps & ls & l & H1 & H2 & H3 & E)]]; try discriminate.
  injection E as ->. simpl. split; [exact H3|]. intros n Hn. apply ops_In. right. left. exists comps, es, e. auto.
Qed.
Lemma ops_OA_closed items m a :
  In (m, OA a) (ops items) -> In m (a_comps a) /\ forall n, In n (a_comps a) -> In (n, OA a) (ops items).
Proof.
  intros H. apply ops_In in H.
  destruct H as [(comps & es & e & H1 & H2 & H3 & E)|[(comps & es & e & H1 & H2 & H3 & E)|(comps & ls & l & H1 & H2 & H3 & E)]]; try discriminate.
  injection E as ->. simpl. split; [exact H3|]. intros n Hn. apply ops_In. right. right. exists comps, ls, l. auto.
Qed.

(* ---------- the insertions the saved file causes ---------- *)
Lemma group_In {A} (key : A -> list string) (l : list A) (x : A) :
  In x l <-> exists k g, In (k, g) (group_by key l) /\ In x g /\ key x = k.
Proof.
  split.
  - intros H. assert (Hx : In x (flat_map snd (group_by key l))).
    { eapply Permutation_in; [apply Permutation_sym, group_by_perm|exact H]. }
    apply in_flat_map in Hx. destruct Hx as [[k g] [Hkg Hxg]]. simpl in Hxg. exists k, g.
    split; [exact Hkg|]. split; [exact Hxg|]. exact (group_by_keyed key l k g x Hkg Hxg).
  - intros (k & g & Hkg & Hxg & _). eapply Permutation_in; [apply group_by_perm|].
    apply in_flat_map. exists (k, g). split; [exact Hkg|exact Hxg].
Qed.

Lemma ops_save S P A n o :
  In (n, o) (ops (save_items S P A)) <->
  (exists d, o = OS d /\ In d S /\ In n (d_comps d))
  \/ (exists d, o = OP d /\ In d P /\ In n (d_comps d))
  \/ (exists a, o = OA a /\ In a A /\ In n (a_comps a)).
Proof.
  rewrite ops_In. unfold save_items. split.
  - intros [(comps & es & e & H1 & H2 & H3 & ->)|[(comps & es & e & H1 & H2 & H3 & ->)|(comps & ls & l & H1 & H2 & H3 & ->)]].
    + left. rewrite !in_app_iff, !in_map_iff in H1.
      destruct H1 as [[[k g] [[= <- <-] Hkg]]|[[[k g] [E _]]|[[k g] [E _]]]]; try discriminate.
      apply in_map_iff in H2. destruct H2 as [d [<- Hd]].
      pose proof (group_by_keyed d_comps S k g d Hkg Hd) as Hk. subst k. rewrite decl_of_entry.
      exists d. split; [reflexivity|]. split; [|exact H3]. apply (group_In d_comps). exists (d_comps d), g. auto.
    + right. left. rewrite !in_app_iff, !in_map_iff in H1.
      destruct H1 as [[[k g] [E _]]|[[[k g] [[= <- <-] Hkg]]|[[k g] [E _]]]]; try discriminate.
      apply in_map_iff in H2. destruct H2 as [d [<- Hd]].
      pose proof (group_by_keyed d_comps P k g d Hkg Hd) as Hk. subst k. rewrite decl_of_entry.
      exists d. split; [reflexivity|]. split; [|exact H3]. apply (group_In d_comps). exists (d_comps d), g. auto.
    + right. right. rewrite !in_app_iff, !in_map_iff in H1.
      destruct H1 as [[[k g] [E _]]|[[[k g] [E _]]|[[k g] [[= <- <-] Hkg]]]]; try discriminate.
      apply in_map_iff in H2. destruct H2 as [a [<- Ha]].
      assert (Hkg' : In (k, g) (group_by a_comps A)).
      { eapply Permutation_in; [apply unnamed_first_perm|exact Hkg]. }
      pose proof (group_by_keyed a_comps A k g a Hkg' Ha) as Hk. subst k. rewrite assign_of_line.
      exists a. split; [reflexivity|]. split; [|exact H3]. apply (group_In a_comps). exists (a_comps a), g. auto.
  - intros [(d & -> & Hd & Hn)|[(d & -> & Hd & Hn)|(a & -> & Ha & Hn)]].
    + left. apply (group_In d_comps) in Hd. destruct Hd as (k & g & Hkg & Hdg & Hk). subst k.
      exists (d_comps d), (map entry_of_decl g), (entry_of_decl d). rewrite decl_of_entry.
      split; [|split; [apply in_map; exact Hdg|split; [exact Hn|reflexivity]]].
      apply in_or_app. left. apply in_map_iff. exists (d_comps d, g). auto.
    + right. left. apply (group_In d_comps) in Hd. destruct Hd as (k & g & Hkg & Hdg & Hk). subst k.
      exists (d_comps d), (map entry_of_decl g), (entry_of_decl d). rewrite decl_of_entry.
      split; [|split; [apply in_map; exact Hdg|split; [exact Hn|reflexivity]]].
      apply in_or_app. right. apply in_or_app. left. apply in_map_iff. exists (d_comps d, g). auto.
    + right. right. apply (group_In a_comps) in Ha. destruct Ha as (k & g & Hkg & Hag & Hk). subst k.
      exists (a_comps a), (map line_of_assign g), (line_of_assign a). rewrite assign_of_line.
      split; [|split; [apply in_map; exact Hag|split; [exact Hn|reflexivity]]].
      apply in_or_app. right. apply in_or_app. right. apply in_map_iff. exists (a_comps a, g). split; [reflexivity|].
      eapply Permutation_in; [apply Permutation_sym, unnamed_first_perm|exact Hkg].
Qed.

(* ---------- the atoms of a loaded model are the atoms that were inserted ---------- *)
Section Loaded.
  Variable l : list (string * op).
  Variable cs : list comp.
  Hypothesis Hrun : run_ops [] l = Ok cs.

  Lemma comp_fields n :
    (forall d, In d (c_states (getc cs n)) <-> In (n, OS d) l)
    /\ (forall d, In d (c_params (getc cs n)) <-> In (n, OP d) l)
    /\ (forall a, In a (c_assigns (getc cs n)) <-> In (n, OA a) l).
  Proof.
    pose proof (run_ops_proj l []) as R. rewrite Hrun in R. destruct R as (P & _ & _).
    specialize (P n). assert (G : getc [] n = empty_comp n) by reflexivity. rewrite G in P.
    rewrite run_comp_spec in P. simpl in P.
    destruct (fold_assign [] (asg (proj n l))) as [la|] eqn:E; [|discriminate].
    injection P as P. rewrite <- P. simpl.
    destruct (fold_assign_spec (asg (proj n l)) [] keyed_nil) as [A1 A2].
    pose proof (A2 la E) as Hcf. destruct (A1 Hcf) as (la' & E' & _ & M). rewrite E in E'. injection E' as <-.
    split; [|split].
    - intros d. rewrite fold_add_decl_In. unfold sts. rewrite in_flat_map. split.
      + intros [[]|[o [Ho Hd]]]. destruct o as [d0|d0|a0]; simpl in Hd; try contradiction. destruct Hd as [<-|[]]. apply proj_In. exact Ho.
      + intros H. right. exists (OS d). split; [apply proj_In; exact H|left; reflexivity].
    - intros d. rewrite fold_add_decl_In. unfold prs. rewrite in_flat_map. split.
      + intros [[]|[o [Ho Hd]]]. destruct o as [d0|d0|a0]; simpl in Hd; try contradiction. destruct Hd as [<-|[]]. apply proj_In. exact Ho.
      + intros H. right. exists (OP d). split; [apply proj_In; exact H|left; reflexivity].
    - intros a. rewrite M. unfold asg. rewrite in_flat_map. split.
      + intros [[]|[o [Ho Hd]]]. destruct o as [d0|d0|a0]; simpl in Hd; try contradiction. destruct Hd as [<-|[]]. apply proj_In. exact Ho.
      + intros H. right. exists (OA a). split; [apply proj_In; exact H|left; reflexivity].
  Qed.

  Lemma names_ops m : In m (names cs) <-> In m (map fst l).
  Proof.
    pose proof (run_ops_proj l []) as R. rewrite Hrun in R. destruct R as (_ & N & _).
    rewrite N. simpl. tauto.
  Qed.

  Lemma names_nodup : NoDup (names cs).
  Proof.
    pose proof (run_ops_proj l []) as R. rewrite Hrun in R. destruct R as (_ & _ & D). apply D. constructor.
  Qed.

  Lemma in_comp_iff (P : comp -> Prop) :
    (exists c, In c cs /\ P c) <-> exists n, In n (names cs) /\ P (getc cs n).
  Proof.
    split.
    - intros [c [Hc HP]]. exists (c_name c). split; [apply in_map; exact Hc|].
      rewrite (getc_In cs c names_nodup Hc). exact HP.
    - intros [n [Hn HP]]. exists (getc cs n). split; [apply In_getc; exact Hn|exact HP].
  Qed.

  Lemma loaded_states d : In d (o_states (ode_of cs)) <-> exists n, In (n, OS d) l.
  Proof.
    unfold ode_of. simpl. rewrite dedup_decl_In, in_flat_map, (in_comp_iff (fun c => In d (c_states c))). split.
    - intros [n [_ H]]. exists n. apply (proj1 (comp_fields n)). exact H.
    - intros [n H]. exists n. split; [apply names_ops; apply (in_map fst) in H; exact H|apply (proj1 (comp_fields n)); exact H].
  Qed.

  Lemma loaded_params d : In d (o_params (ode_of cs)) <-> exists n, In (n, OP d) l.
  Proof.
    unfold ode_of. simpl. rewrite dedup_decl_In, in_flat_map, (in_comp_iff (fun c => In d (c_params c))). split.
    - intros [n [_ H]]. exists n. apply (proj1 (proj2 (comp_fields n))). exact H.
    - intros [n H]. exists n. split; [apply names_ops; apply (in_map fst) in H; exact H|apply (proj1 (proj2 (comp_fields n))); exact H].
  Qed.

  Lemma loaded_assigns a : In a (assigns (ode_of cs)) <-> exists n, In (n, OA a) l.
  Proof.
    unfold assigns, ode_of. simpl. rewrite in_app_iff, !dedup_assign_In, !in_flat_map.
    assert (E : (exists c, In c cs /\ In a (comp_inters c)) \/ (exists c, In c cs /\ In a (comp_derivs c))
                <-> exists c, In c cs /\ In a (c_assigns c)).
    { unfold comp_inters, comp_derivs. split.
      - intros [[c [Hc H]]|[c [Hc H]]]; exists c; (split; [exact Hc|]); apply filter_In in H; exact (proj1 H).
      - intros [c [Hc H]]. destruct (is_deriv a) eqn:Ed.
        + right. exists c. split; [exact Hc|]. apply filter_In. auto.
        + left. exists c. split; [exact Hc|]. apply filter_In. rewrite Ed. auto. }
    rewrite E, (in_comp_iff (fun c => In a (c_assigns c))). split.
    - intros [n [_ H]]. exists n. apply (proj2 (proj2 (comp_fields n))). exact H.
    - intros [n H]. exists n. split; [apply names_ops; apply (in_map fst) in H; exact H|apply (proj2 (proj2 (comp_fields n))); exact H].
  Qed.
End Loaded.

(* ---------- C11 for the mirror ---------- *)
Theorem save_then_load_gen items o S P A :
  load items = Ok o ->
  same_set S (o_states o) -> same_set P (o_params o) -> same_set A (assigns o) ->
  exists o', load (save_items S P A) = Ok o' /\ ode_equiv o o'.
Proof.
  intros HL HS HP HA. apply (load_set items); [|exact HL].
  assert (Hcs : exists cs, run_ops [] (ops items) = Ok cs /\ o = ode_of cs).
  { unfold load, load_comps in HL. rewrite transform_run in HL.
    destruct (run_ops [] (ops items)) as [cs|]; [|discriminate]. simpl in HL.
    destruct (handle_assignments cs) as [[]|]; [|discriminate]. simpl in HL.
    destruct (check_components cs) as [[]|]; [|discriminate]. simpl in HL.
    destruct (first_dup (all_atoms cs)); [discriminate|].
    destruct (resolve cs) as [[]|]; [|discriminate]. simpl in HL. injection HL as <-. eauto. }
  destruct Hcs as (cs & Hrun & ->).
  intros [n op]. rewrite ops_save. split.
  - intros H. destruct op as [d|d|a].
    + left. exists d. split; [reflexivity|]. split; [apply HS, (loaded_states _ cs Hrun); eauto|exact (proj1 (ops_OS_closed _ _ _ H))].
    + right. left. exists d. split; [reflexivity|]. split; [apply HP, (loaded_params _ cs Hrun); eauto|exact (proj1 (ops_OP_closed _ _ _ H))].
    + right. right. exists a. split; [reflexivity|]. split; [apply HA, (loaded_assigns _ cs Hrun); eauto|exact (proj1 (ops_OA_closed _ _ _ H))].
  - intros [(d & -> & Hd & Hn)|[(d & -> & Hd & Hn)|(a & -> & Ha & Hn)]].
    + apply HS, (loaded_states _ cs Hrun) in Hd. destruct Hd as [m Hm]. exact (proj2 (ops_OS_closed _ _ _ Hm) n Hn).
    + apply HP, (loaded_params _ cs Hrun) in Hd. destruct Hd as [m Hm]. exact (proj2 (ops_OP_closed _ _ _ Hm) n Hn).
    + apply HA, (loaded_assigns _ cs Hrun) in Ha. destruct Ha as [m Hm]. exact (proj2 (ops_OA_closed _ _ _ Hm) n Hn).
Qed.

(* in whatever order the writer lists the atoms (it sorts them by name) *)
Theorem save_then_load items o :
  load items = Ok o ->
  exists o', load (save_items (o_states o) (o_params o) (assigns o)) = Ok o' /\ ode_equiv o o'.
Proof. intros HL. apply (save_then_load_gen items o); [exact HL| | |]; intros x; tauto. Qed.

(* and hence the same layout and the same generated functions *)
Theorem save_then_load_same_code items o :
  load items = Ok o ->
  exists o', load (save_items (o_states o) (o_params o) (assigns o)) = Ok o'
    /\ ode_equiv o o'
    /\ (forall ru, sorted_names o ru = sorted_names o' ru)
    /\ sorted_states o = sorted_states o'
    /\ param_names o = param_names o'
    /\ (forall ru order, gen_rhs o ru order = gen_rhs o' ru order)
    /\ (forall ru order, gen_monitor o ru order = gen_monitor o' ru order)
    /\ (forall ru name order, gen_euler o ru name order = gen_euler o' ru name order).
Proof.
  intros HL. destruct (save_then_load items o HL) as (o' & E & HE).
  pose proof (load_unique_assign_names items o HL) as U.
  exists o'. split; [exact E|]. split; [exact HE|]. repeat split.
  - exact (sorted_names_inv o o' HE U).
  - exact (sorted_states_inv o o' HE U).
  - exact (param_names_inv o o' HE).
  - exact (gen_rhs_inv o o' HE U).
  - exact (gen_monitor_inv o o' HE U).
  - exact (gen_euler_inv o o' HE U).
Qed.

Print Assumptions save_then_load_same_code.
