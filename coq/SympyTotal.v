(* SympyTotal.v — "they are produced for any acyclic dependency depth" (C20): whenever the model has a
   statement order (no cycle), the mirror of sympytools.rhs_matrix with the default bound returns a
   right-hand side, after at most one substitution round, for every dependency depth.  The proof uses
   the soundness of the order (OrderSound.sorted_names_sound): every definition (intermediate or state derivative) a definition reads
   has been expanded before it. *)
From GX Require Import Base Expr Topo KahnSound Ode OrderSound Target Sem Schemes Sympytools MirrorValid.
From Coq Require Import Lia.
Open Scope string_scope.
Open Scope list_scope.

Lemma vars_subst sb e y :
  In y (vars (subst sb e)) ->
  exists x, In x (vars e) /\ ((sb x = None /\ y = x) \/ exists e', sb x = Some e' /\ In y (vars e')).
Proof.
  induction e; simpl; intros H;
    repeat match goal with
           | H : In _ (_ ++ _) |- _ => apply in_app_or in H; destruct H as [H|H]
           end;
    try contradiction;
    try (match goal with
         | IH : In y (vars (subst sb ?a)) -> _, H : In y (vars (subst sb ?a)) |- _ =>
             destruct (IH H) as [x0 [Hx0 Hr]]; exists x0; split; [|exact Hr];
             repeat (apply in_or_app; (left; assumption) || right); try assumption
         end; fail).
  - (* EVar *)
    exists x. split; [left; reflexivity|]. destruct (sb x) as [e'|] eqn:E.
    + right. exists e'. split; [reflexivity|exact H].
    + left. split; [reflexivity|]. simpl in H. destruct H as [<-|[]]. reflexivity.
Qed.

Section Total.
  Variable o : ode.
  Variable ord : list string.
  Hypothesis Hord : sorted_names o false = Some ord.

  Definition IN (x : string) : Prop := is_assigned o x = true.
  Definition inter_free (e : expr) : Prop := forall y, In y (vars e) -> ~ IN y.

  Lemma mentions_assigned_false e : inter_free e -> mentions_assigned o e = false.
  Proof.
    intros H. unfold mentions_assigned. destruct (existsb (is_assigned o) (vars e)) eqn:E; [|reflexivity].
    apply existsb_exists in E. destruct E as [y [Hy Hi]]. exfalso. exact (H y Hy Hi).
  Qed.

  Lemma IN_find x : IN x -> exists a, find_assign o x = Some a.
  Proof.
    unfold IN, is_assigned. intros H. apply mem_In in H. apply in_map_iff in H. destruct H as [a0 [E H]].
    unfold find_assign. destruct (find (fun a => String.eqb (a_name a) x) (assigns o)) as [a|] eqn:Ef; [eauto|].
    pose proof (find_none _ _ Ef a0 H) as Hc. simpl in Hc. rewrite E, String.eqb_refl in Hc. discriminate.
  Qed.

  Lemma IN_assign x : IN x -> In x (all_assign_names o).
  Proof.
    unfold IN, is_assigned. intros H. apply mem_In in H. apply all_assign_names_In. exact H.
  Qed.

  (* the state of the expansion after the names in [pre] *)
  Definition ExpInv (pre : list string) (acc : list (string * expr)) : Prop :=
    (forall x e, lookup x acc = Some e -> inter_free e)
    /\ (forall x, IN x -> In x pre -> lookup x acc <> None).

  Lemma expand_step_inv pre n post acc :
    ord = pre ++ n :: post -> ExpInv pre acc -> ExpInv (pre ++ [n]) (expand_step o acc n).
  Proof.
    intros E [H1 H2]. destruct (sorted_names_sound o false ord Hord) as (_ & _ & _ & Htopo).
    unfold expand_step.
    destruct (find_assign o n) as [a|] eqn:Ef.
    - split.
      + intros x e Hl. rewrite lookup_app in Hl. destruct (lookup x acc) as [e0|] eqn:E0.
        * injection Hl as <-. exact (H1 x e0 E0).
        * simpl in Hl. destruct (String.eqb x n); [|discriminate]. injection Hl as <-.
          intros y Hy. apply vars_subst in Hy. destruct Hy as [z [Hz [[Hn ->]|[e' [He' Hy]]]]].
          -- intros Hin. apply (H2 z Hin); [|exact Hn].
             apply (Htopo pre n post E z); [|exact (IN_assign z Hin)].
             unfold deps_of. rewrite Ef. unfold adeps.
             rewrite sort_names_In, dedup_In. exact Hz.
          -- exact (H1 z e' He' y Hy).
      + intros x Hin Hx. rewrite lookup_app. apply in_app_or in Hx. destruct Hx as [Hx|[<-|[]]].
        * destruct (lookup x acc) eqn:E0; [discriminate|]. exfalso. exact (H2 x Hin Hx E0).
        * destruct (lookup n acc); [discriminate|]. simpl. rewrite String.eqb_refl. discriminate.
    - split; [exact H1|]. intros x Hin Hx. apply in_app_or in Hx. destruct Hx as [Hx|[<-|[]]]; [exact (H2 x Hin Hx)|].
      destruct (IN_find n Hin) as [a Ha]. rewrite Ha in Ef. discriminate.
  Qed.

  Lemma expand_fold_inv : forall rest pre acc,
    ord = pre ++ rest -> ExpInv pre acc -> ExpInv ord (fold_left (expand_step o) rest acc).
  Proof.
    induction rest as [|n rest IH]; intros pre acc E HI; simpl.
    - rewrite app_nil_r in E. subst pre. exact HI.
    - apply (IH (pre ++ [n])).
      + rewrite <- app_assoc. exact E.
      + apply (expand_step_inv pre n rest); assumption.
  Qed.

  Lemma expanded_inv : ExpInv ord (expanded o ord).
  Proof.
    apply (expand_fold_inv ord [] []); [reflexivity|]. split; [intros x e H; discriminate|intros x _ []].
  Qed.

  Lemma IN_in_ord x : IN x -> In x ord.
  Proof.
    intros H. destruct (sorted_names_sound o false ord Hord) as (_ & _ & Hall & _).
    apply Hall; [exact (IN_assign x H)|left; reflexivity].
  Qed.

  (* one substitution with the expanded dictionary leaves no defined name: neither intermediate nor state derivative *)
  Lemma one_round_inter_free e : inter_free (subst (exp_subst o ord) e).
  Proof.
    destruct expanded_inv as [H1 H2]. intros y Hy. apply vars_subst in Hy.
    destruct Hy as [z [Hz [[Hn ->]|[e' [He' Hy]]]]].
    - intros Hin. exact (H2 z Hin (IN_in_ord z Hin) Hn).
    - exact (H1 z e' He' y Hy).
  Qed.

  Lemma existsb_map_false es :
    existsb (mentions_assigned o) (map (subst (exp_subst o ord)) es) = false.
  Proof.
    induction es as [|e es IH]; simpl; [reflexivity|].
    rewrite (mentions_assigned_false _ (one_round_inter_free e)), IH. reflexivity.
  Qed.

  (* the right-hand side is produced: for any dependency depth, with the default bound *)
  Theorem rhs_matrix_total : exists es, rhs_matrix o (default_tries o) = Some es.
  Proof.
    unfold rhs_matrix. rewrite Hord. unfold default_tries.
    set (es0 := rhs_init o ord). cbn [rhs_loop].
    destruct (existsb (mentions_assigned o) es0) eqn:E0.
    - (* some defined name is mentioned, so there is at least one definition *)
      destruct (assigns o) as [|a l] eqn:El.
      + exfalso. apply existsb_exists in E0. destruct E0 as [e [_ He]]. unfold mentions_assigned in He.
        apply existsb_exists in He. destruct He as [y [_ Hy]]. unfold is_assigned in Hy. rewrite El in Hy.
        discriminate.
      + cbn [length rhs_loop]. rewrite existsb_map_false. cbn. eexists. reflexivity.
    - cbn. eexists. reflexivity.
  Qed.

  (* and the Jacobian with it *)
  Corollary jacobian_total : forall ss, sorted_states o = Some ss -> exists j, jacobian o (default_tries o) = Some j.
  Proof.
    intros ss Hss. unfold jacobian. destruct rhs_matrix_total as [es ->]. rewrite Hss. eexists. reflexivity.
  Qed.
End Total.
