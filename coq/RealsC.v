(* RealsC.v — the real-number carrier (standard library reals, classical) and the analytic facts
   the Rush-Larsen property states: the field laws hold, a passed guard excludes division by
   zero, the step is exact for rates affine in their own state. *)
From Coq Require Import Reals QArith Qreals Lra.
From GX Require Import Base Expr Topo Ode Target Sem Valid Schemes.
Close Scope Q_scope.
Open Scope R_scope.

Definition r_b (b : bool) : R := if b then 1 else 0.
Definition r_nz (a : R) : bool := if Req_EM_T a 0 then false else true.
Definition r_lt (a b : R) : bool := if Rlt_dec a b then true else false.
Definition r_le (a b : R) : bool := if Rle_dec a b then true else false.
Definition r_eq (a b : R) : bool := if Req_EM_T a b then true else false.

Definition r_floor (a : R) : R := IZR (Int_part a).

Definition ROps : NumOps R := {|
  ofQ := Q2R;
  cpi := PI;
  add := Rplus; sub := Rminus; mul := Rmult; div := Rdiv;
  pow := Rpower;          (* a^b = exp(b ln a): the meaning for a > 0 *)
  neg := Ropp;
  fn := fun f a => match f with
                   | Fexp => exp a | Fcos => cos a | Fsin => sin a | Ftan => tan a
                   | Facos => acos a | Fasin => asin a | Fatan => atan a
                   | Flog => ln a | Fsqrt => sqrt a | Fabs => Rabs a | Ffloor => r_floor a
                   end;
  fmod := fun a b => a - b * r_floor (a / b);
  rel := fun r a b => r_b (match r with
                           | Rlt => r_lt a b | Rgt => r_lt b a | Rle => r_le a b | Rge => r_le b a
                           | Req => r_eq a b | Rne => negb (r_eq a b) end);
  bnot := fun a => r_b (negb (r_nz a));
  band := fun a b => r_b (r_nz a && r_nz b);
  bor := fun a b => r_b (r_nz a || r_nz b);
  select := fun c a b => if r_nz c then a else b |}.

Lemma r_nz_b b : r_nz (r_b b) = b.
Proof. destruct b; unfold r_nz, r_b; destruct (Req_EM_T _ 0); auto; exfalso; lra. Qed.

Theorem ROps_field : FieldLaws ROps.
Proof.
  constructor; simpl; intros.
  - apply Rplus_comm.
  - apply Rmult_comm.
  - unfold Rdiv. ring.
  - unfold Rdiv. ring.
  - rewrite orb_comm. reflexivity.
  - unfold Q2R. simpl. lra.
  - rewrite !r_nz_b. f_equal. unfold r_lt.
    destruct (Rlt_dec d g), (Rlt_dec g (- d)), (Rlt_dec d (Rabs g)); simpl; try reflexivity;
      exfalso; unfold Rabs in *; destruct (Rcase_abs g); lra.
Qed.

(* a guard that passed excludes division by zero (delta >= 0) *)
Lemma guard_excludes_zero (g delta : R) :
  0 <= delta -> r_nz (rel ROps Rgt (Rabs g) delta) = true -> g <> 0.
Proof.
  simpl. rewrite r_nz_b. unfold r_lt. destruct (Rlt_dec delta (Rabs g)); [|discriminate].
  intros Hd _ ->. rewrite Rabs_R0 in r. lra.
Qed.

(* the value of a guarded slot: the RL formula when |g| > delta, the Euler update otherwise *)
Lemma guarded_slot_value (delta : Q) (sv fv gv dtv : R) :
  slot_value ROps MGuard delta sv fv gv dtv =
  if Rlt_dec (Q2R delta) (Rabs gv)
  then sv + fv / gv * (exp (gv * dtv) - Q2R 1)
  else sv + dtv * fv.
Proof.
  unfold slot_value, rl_value, one. simpl. rewrite r_nz_b. unfold r_lt.
  destruct (Rlt_dec (Q2R delta) (Rabs gv)); reflexivity.
Qed.

(* exact for rates affine in their own state: if f = a*x + b with a <> 0 then g = a and
   x + (f/g)(exp(g dt) - 1) is the solution (x + b/a) exp(a dt) - b/a of x' = a x + b at time dt *)
Lemma rl_exact_for_affine (a b x dt : R) :
  a <> 0 ->
  x + (a * x + b) / a * (exp (a * dt) - 1) = (x + b / a) * exp (a * dt) - b / a.
Proof. intros Ha. field. exact Ha. Qed.

Lemma Q2R_1 : Q2R 1 = 1.
Proof. unfold Q2R. simpl. lra. Qed.

(* with g = 0 (or |g| <= delta) the guarded slot is the Euler update, whatever f is *)
Lemma guarded_slot_euler_when_small (delta : Q) (sv fv gv dtv : R) :
  Rabs gv <= Q2R delta ->
  slot_value ROps MGuard delta sv fv gv dtv = sv + dtv * fv.
Proof.
  intros H. rewrite guarded_slot_value. destruct (Rlt_dec (Q2R delta) (Rabs gv)); [lra|reflexivity].
Qed.

(* ---------- C02: int -> double over the reals ---------- *)
From GX Require Import Cback.

Lemma Q2R_inject_Z z : Q2R (inject_Z z) = IZR z.
Proof. unfold Q2R, inject_Z. simpl. lra. Qed.

Theorem R_int_embedding : IntEmbedding ROps IZR.
Proof.
  constructor; simpl; intros.
  - symmetry. apply Q2R_inject_Z.
  - apply plus_IZR.
  - apply minus_IZR.
  - apply mult_IZR.
  - apply opp_IZR.
Qed.

(* C's fmod over the reals: a - b * trunc(a / b) *)
Definition r_trunc (a : R) : R := if Rle_dec 0 a then r_floor a else - r_floor (- a).
Definition r_cfmod (a b : R) : R := a - b * r_trunc (a / b).

(* ---------- C16: select / rel laws over the reals ---------- *)
From GX Require Import Singular.
Theorem ROps_sel : SelLaws ROps.
Proof.
  constructor; unfold oneT, zero; simpl; intros.
  - unfold r_nz. destruct (Req_EM_T (Q2R 1) 0) as [E|_]; [|reflexivity]. unfold Q2R in E; simpl in E; lra.
  - unfold r_nz. destruct (Req_EM_T (Q2R 0) 0) as [_|E]; [reflexivity|]. unfold Q2R in E; simpl in E; lra.
  - unfold r_b. match goal with |- context [if ?c then _ else _] => destruct c end;
      [left|right]; unfold Q2R; simpl; lra.
Qed.
