(* C14 — Generated NumPy functions are vectorised: columns are independent. *)
From GX Require Import Base Expr Target Batch.
Open Scope string_scope.
Open Scope list_scope.

(* Over the batch carrier - a value is a function from the column index to a scalar and every
   operation acts column by column - the result of a function body for a batch is, in column j, the
   result of the same body for column j alone; the batch call fails exactly when the single-column
   call fails.  For every body (any nesting of conditionals, connectives, abs, floor, Mod), every
   batch width and every scalar carrier. *)
Theorem C14_batch_result_is_columnwise :
  forall (T : Type) (N : NumOps T) (f : func) (wd : bool) (inp : inputs (nat -> T)) (j : nat),
    exec N f wd (col_inputs j inp) =
    match exec (VOps N) f wd inp with
    | Some out => Some (map (fun v => v j) out)
    | None => None
    end.
Proof. exact @exec_columnwise. Qed.
Print Assumptions C14_batch_result_is_columnwise.

Theorem C14_every_expression_is_evaluated_column_by_column :
  forall (T : Type) (N : NumOps T) (rho : string -> nat -> T) e j,
    eval (VOps N) rho e j = eval N (fun x => rho x j) e.
Proof. exact @eval_columnwise. Qed.
Print Assumptions C14_every_expression_is_evaluated_column_by_column.
