(* C08 — Ill-formed models are rejected, never silently repaired. *)
From GX Require Import Base Expr Topo KahnSound Ode OrderSound Target Sem Codegen Load LoadSound Valid MirrorValid LoadWf Examples.
Open Scope string_scope.
Open Scope list_scope.

(* A text becomes a model only if it is well formed.  For the loader mirror (which follows the
   loader stage by stage and is compared with it on every fault-injected text):
   (1) no name has two differing definitions - of any kinds, in any components;
   (2) every derivative has a declared state in its component;
   (3) every state has a derivative;
   (4) every referenced symbol is defined. *)
Theorem C08_accepted_models_are_well_formed :
  forall items cs,
    load_comps items = Ok cs ->
    (forall l1 x l2, all_atoms cs = l1 ++ x :: l2 ->
       forall y, In y l2 -> atom_name x = atom_name y -> atom_eqb x y = true)
    /\ (forall c a s, In c cs -> In a (c_assigns c) -> deriv_state (a_name a) = Some s ->
          has_state c s = true)
    /\ (forall c d, In c cs -> In d (c_states c) -> state_has_derivative c d = true)
    /\ (forall a x, In a (all_assigns cs) -> In x (vars (a_expr a)) -> In x (symbols cs)).
Proof. exact load_sound. Qed.
Print Assumptions C08_accepted_models_are_well_formed.

Theorem C08_a_state_with_derivative_has_an_assignment_of_that_name :
  forall c d, state_has_derivative c d = true ->
    exists a, In a (c_assigns c) /\ deriv_state (a_name a) = Some (d_name d).
Proof. exact state_has_derivative_spec. Qed.
Print Assumptions C08_a_state_with_derivative_has_an_assignment_of_that_name.

(* generated code that passes the validator never reads an undefined value: it binds every name
   before use and runs to completion (acyclicity of the definitions it contains is implied: each
   let reads only names bound earlier) *)
Theorem C08_validated_code_never_reads_an_undefined_value :
  forall (T : Type) (N : NumOps T) (o : ode) ss (inp : inputs T) with_dt (f : func),
    sizes_ok o ss inp -> reserved_free o inp with_dt = true ->
    valid_body o ss inp with_dt (f_nret f) (reserved inp with_dt) (f_body f) = true ->
    exists out, exec N f with_dt inp = Some out /\ length out = f_nret f.
Proof.
  intros T N o ss inp with_dt f H1 H2 H3.
  destruct (exec_sound N o ss inp with_dt f H1 H2 H3) as (out & A & B & _). exists out. auto.
Qed.
Print Assumptions C08_validated_code_never_reads_an_undefined_value.

(* consequently every accepted model has pairwise distinct names across all kinds, exactly one
   derivative d<state>_dt per state, no missing variable - it satisfies the well-formedness the
   generator theorems (C01, C05, C12) need, as soon as its names avoid the generator's own *)
Theorem C08_accepted_models_satisfy_the_generators_preconditions :
  forall items o ss wd,
    load items = Ok o -> sorted_states o = Some ss ->
    (forall x, In x (all_names o) -> resv wd x = false) ->
    wf_gen o ss wd = true.
Proof. exact load_wf. Qed.
Print Assumptions C08_accepted_models_satisfy_the_generators_preconditions.

(* cyclic definitions get no statement order at all (graphlib.CycleError in the implementation):
   if sorted_assignments returns an order, no assignment reads itself, no two assignments read
   each other, and in general every assignment comes strictly after everything it reads - so no
   dependency cycle of any length exists among the ordered assignments *)
Theorem C08_an_ordered_model_has_no_self_dependency :
  forall dp names ord n,
    static_order (build dp names []) = Some ord -> In n names -> ~ In n (dp n).
Proof. exact build_order_no_self_dep. Qed.
Print Assumptions C08_an_ordered_model_has_no_self_dependency.

Theorem C08_an_ordered_model_has_no_mutual_dependency :
  forall o ru ord n m,
    sorted_names o ru = Some ord -> In n ord -> In m ord ->
    In m (deps_of o n) -> In n (deps_of o m) -> False.
Proof. exact sorted_names_acyclic2. Qed.
Print Assumptions C08_an_ordered_model_has_no_mutual_dependency.

Theorem C08_static_order_is_topological :
  forall dp names ord,
    static_order (build dp names []) = Some ord ->
    NoDup ord
    /\ (forall n, In n names -> In n ord)
    /\ (forall pre n post, ord = pre ++ n :: post -> In n names ->
          forall d, In d (dp n) -> In d pre).
Proof. exact build_order_sound. Qed.
Print Assumptions C08_static_order_is_topological.

(* and conversely: the sort refuses a model only when its definitions cannot be ranked, i.e. only when
   they are cyclic (a cycle is the one fault the sort is responsible for; no well-formed model is lost) *)
Theorem C08_cycle_error_iff_cyclic :
  forall o ru,
    (exists ord, sorted_names o ru = Some ord)
    <-> exists rank : string -> nat,
          forall n d, In n (all_assign_names o) -> In d (deps_of o n) -> rank d < rank n.
Proof. exact sorted_names_iff_ranked. Qed.
Print Assumptions C08_cycle_error_iff_cyclic.

(* the mirror rejects each kind of fault (computed): duplicate with the same dependency set,
   duplicate derivative, kind clash, missing derivative, orphan derivative, undefined symbol; and a
   cycle is detected by the topological sort at generation *)
Definition mk_line n e := {| ln_name := n; ln_expr := e; ln_unit := None; ln_comment := None |}.
Definition mk_entry n z := {| en_name := n; en_value := lit z; en_unit := None; en_desc := None |}.
Definition is_err {A} (r : result A) := match r with Err _ => true | Ok _ => false end.

Example C08_faults_are_rejected_by_the_mirror :
  is_err (load [IStates [""] [mk_entry "s" 1]; IExprs [""] [mk_line "x" (lit 1); mk_line "ds_dt" (v "x"); mk_line "x" (lit 3)]]) = true
  /\ is_err (load [IStates [""] [mk_entry "s" 1]; IParams [""] [mk_entry "a" 1; mk_entry "b" 2];
                   IExprs [""] [mk_line "ds_dt" (v "a"); mk_line "ds_dt" (v "b")]]) = true
  /\ is_err (load [IStates [""] [mk_entry "s" 1]; IParams [""] [mk_entry "s" 1]; IExprs [""] [mk_line "ds_dt" (v "s")]]) = true
  /\ is_err (load [IStates [""] [mk_entry "s" 1; mk_entry "r" 1]; IExprs [""] [mk_line "ds_dt" (v "s")]]) = true
  /\ is_err (load [IStates [""] [mk_entry "s" 1]; IExprs [""] [mk_line "ds_dt" (v "s"); mk_line "dq_dt" (v "s")]]) = true
  /\ is_err (load [IStates [""] [mk_entry "s" 1]; IExprs [""] [mk_line "ds_dt" (v "nope")]]) = true
  /\ (match load [IStates [""] [mk_entry "s" 1];
                  IExprs [""] [mk_line "a" (v "b"); mk_line "b" (v "a"); mk_line "ds_dt" (v "a")]] with
      | Ok o => sorted_names o false
      | Err _ => Some []
      end) = None
  /\ is_err (load ex_items) = false.
Proof. vm_compute. repeat split. Qed.
