(* C17 — Comments, layout and annotations are inert. *)
From GX Require Import Base Expr Topo Ode Load LoadSound Perm Annot Parse Lex Line.
From Coq Require Import Ascii.
Open Scope string_scope.
Open Scope list_scope.

(* comment lines between the items of a model are ignored by the loader, whatever their text and
   wherever they stand *)
Theorem C17_comment_items_are_ignored :
  forall l1 s l2,
    load_comps (l1 ++ IComment s :: l2) = load_comps (l1 ++ l2)
    /\ load (l1 ++ IComment s :: l2) = load (l1 ++ l2).
Proof. exact comment_items_are_ignored. Qed.
Print Assumptions C17_comment_items_are_ignored.

Theorem C17_comment_text_is_irrelevant :
  forall l1 s s' l2, load (l1 ++ IComment s :: l2) = load (l1 ++ IComment s' :: l2).
Proof. exact comment_text_is_irrelevant. Qed.
Print Assumptions C17_comment_text_is_irrelevant.

(* unit / description / trailing-comment annotations (and component tags) do not influence statement
   order or slot layout: two models with the same names and expressions have the same tables *)
Theorem C17_partial_annotations_do_not_change_the_layout :
  forall o o', same_core o o' ->
    (forall ru, sorted_names o ru = sorted_names o' ru)
    /\ sorted_states o = sorted_states o'
    /\ param_names o = param_names o' /\ state_names o = state_names o'.
Proof.
  intros o o' E. repeat split.
  - exact (sorted_names_core o o' E).
  - exact (sorted_states_core o o' E).
  - exact (param_names_core o o' E).
  - exact (state_names_core o o' E).
Qed.
Print Assumptions C17_partial_annotations_do_not_change_the_layout.
(* Partial: the lexer-level part of the property (a comment line inside a headed expressions block
   ends the block; an empty trailing comment swallows the next line; a comment directly after a block
   header is a syntax error; hangs) is outside the item-level model; it is searched by execution. *)

(* layout inside an expression: the lexer (Lex.lex, the terminals of ode.lark) produces the same tokens whatever white space
   - blanks, tabs, line feeds, form feeds, carriage returns, in any number - leads the text and separates the tokens; in
   particular an expression continued over several lines is the expression written on one *)
Theorem C17_white_space_between_tokens_is_inert :
  forall lead l, all_chars is_space lead = true -> Forall laid l ->
    lex (lead ++ layout l) = Some (map (fun tw => tok_of (fst tw)) l).
Proof. exact lex_layout. Qed.
Print Assumptions C17_white_space_between_tokens_is_inert.

Theorem C17_two_layouts_of_the_same_tokens_are_read_alike :
  forall lead1 lead2 l1 l2,
    all_chars is_space lead1 = true -> all_chars is_space lead2 = true -> Forall laid l1 -> Forall laid l2 ->
    map fst l1 = map fst l2 ->
    lex (lead1 ++ layout l1) = lex (lead2 ++ layout l2)
    /\ parse_string (lead1 ++ layout l1) = parse_string (lead2 ++ layout l2).
Proof.
  intros lead1 lead2 l1 l2 H1 H2 F1 F2 E. pose proof (layout_is_inert lead1 lead2 l1 l2 H1 H2 F1 F2 E) as H.
  split; [exact H|]. unfold parse_string. rewrite H. reflexivity.
Qed.
Print Assumptions C17_two_layouts_of_the_same_tokens_are_read_alike.

(* comments at the character level: an assignment line is cut at its first "#"; for a code part without "#" the name and the
   expression read (Line.parse_line = cut, Lex.lex, Parse.parse_expr) are those of the bare code, whatever the comment says *)
Theorem C17_the_comment_of_an_assignment_line_is_inert :
  forall codepart c, free_of hash codepart = true ->
    parse_line (codepart ++ String "#"%char c)
    = match parse_line codepart with Some (x, e, _) => Some (x, e, Some c) | None => None end.
Proof. exact comment_is_inert. Qed.
Print Assumptions C17_the_comment_of_an_assignment_line_is_inert.

Theorem C17_two_comments_on_the_same_code_give_the_same_assignment :
  forall codepart c1 c2, free_of hash codepart = true ->
    match parse_line (codepart ++ String "#"%char c1), parse_line (codepart ++ String "#"%char c2) with
    | Some (x1, e1, _), Some (x2, e2, _) => x1 = x2 /\ e1 = e2
    | None, None => True
    | _, _ => False
    end.
Proof. exact line_comment_text_is_irrelevant. Qed.
Print Assumptions C17_two_comments_on_the_same_code_give_the_same_assignment.

(* comment lines and blank lines inside a block (Line.parse_block: the body of a headed expressions block, one assignment per
   line): wherever such a line is put and whatever it says, the assignments read are the same *)
Theorem C17_comment_lines_inside_a_block_are_inert :
  forall ls1 lead c ls2, all_chars is_space lead = true ->
    parse_block (ls1 ++ (String.append lead (String "#"%char c)) :: ls2) = parse_block (ls1 ++ ls2).
Proof. exact comment_lines_are_inert. Qed.
Print Assumptions C17_comment_lines_inside_a_block_are_inert.

Theorem C17_a_block_is_read_as_its_assignment_lines_alone :
  forall ls, parse_block ls = parse_block (filter (fun l => negb (skipped l)) ls).
Proof. exact parse_block_filter. Qed.
Print Assumptions C17_a_block_is_read_as_its_assignment_lines_alone.

(* physical and logical lines (Line.logical: a line feed ends an assignment only outside parentheses - the post-lexer of
   parser.py - and only where an expression can end - not behind + - * / = , ( ; "#" starts a comment whose parentheses do not
   count): lines that are balanced and closed are left alone, and a statement broken inside parentheses or behind an operator
   - however many pieces, blank lines among them, whatever stands around it - is put together again *)
Theorem C17_balanced_lines_are_read_line_by_line :
  forall ls, Forall balanced ls -> logical 0 false EmptyString ls = ls /\ parse_body ls = parse_block ls.
Proof. intros ls H. split; [exact (logical_of_balanced_lines ls H)|exact (parse_body_of_balanced_lines ls H)]. Qed.
Print Assumptions C17_balanced_lines_are_read_line_by_line.

Theorem C17_a_broken_statement_is_one_statement :
  forall ps d op acc last rest,
    pieces_open d op ps -> closes (fst (state_after d op ps)) (snd (state_after d op ps)) last = true ->
    logical d op acc (ps ++ last :: rest)
    = String.append acc (String.append (glue ps) last) :: logical 0 false EmptyString rest.
Proof. exact logical_joins_broken_statement. Qed.
Print Assumptions C17_a_broken_statement_is_one_statement.
