(* C13 — A component split yields complementary sub-models that reproduce the full model. *)
From GX Require Import Base Expr Topo Ode Target Sem Codegen Load LoadSound Valid MirrorValid Theory.
Open Scope string_scope.
Open Scope list_scope.

(* each sub-model's missing variables are exactly the names it uses but does not define *)
Theorem C13_missing_variables_are_the_names_used_but_not_defined :
  forall o x,
    In x (missing_names o) <->
    (exists a, In a (assigns o) /\ In x (vars (a_expr a))) /\ known_symbol o x = false.
Proof. exact missing_names_exact. Qed.
Print Assumptions C13_missing_variables_are_the_names_used_but_not_defined.

(* together the halves contain every state of the original ... *)
Theorem C13_halves_contain_every_state :
  forall cs c n, NoDup (map c_name cs) -> In c cs ->
    (In n (map d_name (o_states (ode_of cs))) <->
     In n (map d_name (o_states (to_ode c))) \/ In n (map d_name (o_states (minus cs (c_name c))))).
Proof. exact split_covers_states. Qed.
Print Assumptions C13_halves_contain_every_state.

(* ... each exactly once unless a state is declared in two components *)
Theorem C13_a_state_in_both_halves_is_declared_in_two_components :
  forall cs c n,
    In n (map d_name (o_states (to_ode c))) -> In n (map d_name (o_states (minus cs (c_name c)))) ->
    exists c', In c' cs /\ c_name c' <> c_name c
               /\ In n (map d_name (c_states c')) /\ In n (map d_name (c_states c)).
Proof. exact split_halves_disjoint. Qed.
Print Assumptions C13_a_state_in_both_halves_is_declared_in_two_components.

(* a sub-model whose undefined names (states, parameters, missing variables, t, dt) are fed the full
   model's values gives every quantity the value it has in the full model - for every carrier *)
Theorem C13_fed_submodel_reproduces_the_full_model :
  forall (T : Type) (N : NumOps T) (ofull osub : ode) ssf sss (inpf inps : inputs T) wd,
    (forall x a, find_assign osub x = Some a -> find_assign ofull x = Some a) ->
    (forall x v, find_assign osub x = None -> base osub sss inps wd x = Some v ->
                 Sem N ofull ssf inpf wd x v) ->
    forall x v, Sem N osub sss inps wd x v -> Sem N ofull ssf inpf wd x v.
Proof. exact @sub_sem_transfer. Qed.
Print Assumptions C13_fed_submodel_reproduces_the_full_model.

(* the generated missing_values function: slot i holds the meaning of the i-th requested name *)
Theorem C13_validated_missing_values_writes_the_requested_names :
  forall (T : Type) (N : NumOps T) (o : ode) ss (inp : inputs T) with_dt tbl f,
    sizes_ok o ss inp -> reserved_free o inp with_dt = true ->
    valid_named o ss inp with_dt tbl f = true ->
    exists out,
      exec N f with_dt inp = Some out
      /\ length out = length tbl
      /\ forall i n, nth_error tbl i = Some n ->
           exists v, nth_error out i = Some v /\ Sem N o ss inp with_dt n v.
Proof. exact @named_sound. Qed.
Print Assumptions C13_validated_missing_values_writes_the_requested_names.

(* the mirror of missing_values(values) is a verified compiler too: for every well-formed model and every
   request (distinct names of the model, distinct slots below the number of requested names) the generated
   function - requested states and parameters first, then assignments until every requested name has been
   written, a requested parameter unpacked even when remove_unused drops it elsewhere - passes the validator
   and returns in slot i the documented meaning of the name requested for slot i.  The implementation's
   missing_values is compared with this function statement by statement. *)
Theorem C13_mirror_missing_values_is_correct_for_every_well_formed_model :
  forall (T : Type) (N : NumOps T) (o : ode) ru order ss ord req tbl f (inp : inputs T),
    sorted_states o = Some ss -> sorted_names o false = Some ord -> MirrorValid.wf_gen o ss false = true ->
    NoDup (keys req) ->
    (forall x i, lookup x req = Some i -> i < length req) ->
    (forall x y i, lookup x req = Some i -> lookup y req = Some i -> x = y) ->
    (forall x, In x (keys req) -> In x (all_names o)) ->
    length tbl = length req ->
    (forall i x, nth_error tbl i = Some x -> lookup x req = Some i) ->
    gen_missing_values o ru req order = Some f ->
    sizes_ok o ss inp ->
    valid_named o ss inp false tbl f = true
    /\ exists out,
        exec N f false inp = Some out
        /\ length out = length tbl
        /\ forall i n, nth_error tbl i = Some n ->
             exists v, nth_error out i = Some v /\ Sem N o ss inp false n v.
Proof. exact @MirrorValid.mirror_missing_correct. Qed.
Print Assumptions C13_mirror_missing_values_is_correct_for_every_well_formed_model.
