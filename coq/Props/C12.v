(* C12 — Removing unused variables never changes results. *)
From GX Require Import Base Expr Topo Ode Target Sem Codegen Load Valid MirrorValid Run Carriers Theory Examples.
Open Scope string_scope.
Open Scope list_scope.

(* Two rhs programs for one model that both pass the validator - in particular the one generated
   with removal of unused variables and the one generated without - run without reading an
   unbound name and return the same array, of the same length, in the same slot layout [ss]. *)
Theorem C12_rhs_with_and_without_removal_agree :
  forall (T : Type) (N : NumOps T) (o : ode) ss (inp : inputs T) with_dt f1 f2,
    sizes_ok o ss inp -> reserved_free o inp with_dt = true ->
    valid_rhs o ss inp with_dt f1 = true -> valid_rhs o ss inp with_dt f2 = true ->
    exists out, exec N f1 with_dt inp = Some out /\ exec N f2 with_dt inp = Some out
                /\ length out = length ss.
Proof. exact @rhs_agree. Qed.
Print Assumptions C12_rhs_with_and_without_removal_agree.

(* and for the mirror of the generator this is unconditional: every well-formed model *)
Theorem C12_mirror_rhs_unchanged_by_removal_for_every_well_formed_model :
  forall (T : Type) (N : NumOps T) (o : ode) order1 order2 ss f1 f2 (inp : inputs T),
    sorted_states o = Some ss -> MirrorValid.wf_gen o ss false = true ->
    gen_rhs o false order1 = Some f1 -> gen_rhs o true order2 = Some f2 ->
    sizes_ok o ss inp ->
    exists out, exec N f1 false inp = Some out /\ exec N f2 false inp = Some out /\ length out = length ss.
Proof. exact @mirror_rhs_removal_invariant. Qed.
Print Assumptions C12_mirror_rhs_unchanged_by_removal_for_every_well_formed_model.

(* the same for the explicit Euler scheme: each validated program computes
   states + dt * (meaning of the derivative), hence they agree *)
Theorem C12_validated_euler_is_determined :
  forall (T : Type) (N : NumOps T) (o : ode) ss (inp : inputs T) with_dt f,
    CommOps N -> with_dt = true ->
    sizes_ok o ss inp -> reserved_free o inp with_dt = true ->
    states_clean o ss inp with_dt = true -> NoDup ss ->
    valid_euler o ss inp with_dt f = true ->
    exists out,
      exec N f with_dt inp = Some out
      /\ length out = length ss
      /\ forall i s, nth_error ss i = Some s ->
           exists sv fv,
             nth_error (in_states inp) i = Some sv
             /\ Sem N o ss inp with_dt (deriv_name_of s) fv
             /\ nth_error out i = Some (add N sv (mul N (in_dt inp) fv)).
Proof. exact @euler_sound. Qed.
Print Assumptions C12_validated_euler_is_determined.

(* a validated body never reads a name whose definition or unpacking is missing: execution of
   the statement list succeeds (None would be the NameError / IndexError of the real program) *)
Theorem C12_validated_body_never_reads_an_unbound_name :
  forall (T : Type) (N : NumOps T) (o : ode) ss (inp : inputs T) with_dt (f : func),
    sizes_ok o ss inp -> reserved_free o inp with_dt = true ->
    valid_body o ss inp with_dt (f_nret f) (reserved inp with_dt) (f_body f) = true ->
    exists out, exec N f with_dt inp = Some out /\ length out = f_nret f.
Proof.
  intros T N o ss inp with_dt f H1 H2 H3.
  destruct (exec_sound N o ss inp with_dt f H1 H2 H3) as (out & A & B & _). exists out. auto.
Qed.
Print Assumptions C12_validated_body_never_reads_an_unbound_name.

(* non-vacuity: on the example model (which has an unused intermediate and an unused parameter)
   both variants are accepted, really differ as programs, and compute the same array *)
Example C12_example :
  valid_rhs ex_ode ex_ss ex_inp false (ex_rhs false) = true
  /\ valid_rhs ex_ode ex_ss ex_inp false (ex_rhs true) = true
  /\ length (f_body (ex_rhs true)) < length (f_body (ex_rhs false))
  /\ exec QcOps (ex_rhs true) false ex_inp = exec QcOps (ex_rhs false) false ex_inp
  /\ exec QcOps (ex_rhs true) false ex_inp <> None.
Proof. vm_compute. repeat split; try lia; try (intro; discriminate). Qed.
