(* C18 — The command line writes what the API generates and honours its options. *)
From GX Require Import Base Cli.
From Coq Require Import QArith.
Close Scope Q_scope.
Open Scope string_scope.
Open Scope list_scope.

(* The model of the option plumbing is thin: the effective options are the command-line options
   overridden by the keys present in the configuration.  What the model can carry: *)
Theorem C18_without_configuration_the_command_line_options_are_used :
  forall cli, effective cli empty_config = cli.
Proof. exact no_config_keeps_the_command_line. Qed.
Print Assumptions C18_without_configuration_the_command_line_options_are_used.

Theorem C18_a_configured_key_overrides_the_command_line_whatever_its_value :
  forall cli cfg s st d,
    c_scheme cfg = Some s -> c_stiff cfg = Some st -> c_delta cfg = Some d ->
    o_scheme (effective cli cfg) = s /\ o_stiff (effective cli cfg) = st /\ o_delta (effective cli cfg) = d.
Proof. exact config_overrides_whatever_its_value. Qed.
Print Assumptions C18_a_configured_key_overrides_the_command_line_whatever_its_value.

Theorem C18_an_absent_key_leaves_the_command_line_value :
  forall cli cfg,
    c_scheme cfg = None -> c_stiff cfg = None -> c_delta cfg = None ->
    o_scheme (effective cli cfg) = o_scheme cli /\ o_stiff (effective cli cfg) = o_stiff cli
    /\ o_delta (effective cli cfg) = o_delta cli.
Proof. exact absent_keys_leave_the_command_line. Qed.
Print Assumptions C18_an_absent_key_leaves_the_command_line_value.

(* in particular an empty list or a zero in the configuration wins over a command-line value *)
Example C18_falsy_configuration_values_win :
  let cli := {| o_scheme := ["explicit_euler"]; o_stiff := ["x"]; o_delta := (1 # 2)%Q; o_verbose := false;
                o_remove_unused := false; o_format := "none"; o_backend := "numpy"; o_outname := None |} in
  let cfg := {| c_scheme := Some []; c_stiff := Some []; c_delta := Some 0%Q; c_verbose := None; c_format := None; c_backend := None |} in
  o_scheme (effective cli cfg) = [] /\ o_stiff (effective cli cfg) = [] /\ o_delta (effective cli cfg) = 0%Q.
Proof. repeat split. Qed.
(* Not modelled (runtime behaviour, checked by execution only): typer's parsing, process exit status,
   the file system, that the bytes written are the bytes get_code returns. *)
