(* C16 — Singularity removal changes a model only at its removable singular points. *)
From Coq Require Import Reals QArith Qcanon.
From GX Require Import Base Expr Singular Carriers RealsC.
Close Scope Q_scope. Close Scope R_scope. Close Scope Qc_scope.
Open Scope string_scope.
Open Scope list_scope.

(* What the property requires is the nested combination: original value wherever no removable
   singularity is hit, the replacement (the limit) where one is hit, infinite singularities and
   singularity-free expressions untouched - for any number of removable singularities. *)
Theorem C16_nested_form_agrees_at_regular_points :
  forall (T : Type) (N : NumOps T), SelLaws N ->
  forall rho e l,
    (forall s, In s (removable l) -> miss N rho s) -> eval N rho (remove_nested e l) = eval N rho e.
Proof. exact @nested_regular. Qed.
Print Assumptions C16_nested_form_agrees_at_regular_points.

Theorem C16_nested_form_gives_the_limit_at_a_singular_point :
  forall (T : Type) (N : NumOps T), SelLaws N ->
  forall rho e l r1 s r2,
    removable l = r1 ++ s :: r2 -> (forall s', In s' r1 -> miss N rho s') -> hit N rho s ->
    eval N rho (remove_nested e l) = eval N rho (s_repl s).
Proof. exact @nested_singular. Qed.
Print Assumptions C16_nested_form_gives_the_limit_at_a_singular_point.

Theorem C16_untouched_without_removable_singularities :
  forall e l, removable l = [] -> remove_sum e l = e /\ remove_nested e l = e.
Proof. intros e l H. unfold remove_sum, remove_nested. rewrite H. split; reflexivity. Qed.
Print Assumptions C16_untouched_without_removable_singularities.

(* The code as it stands sums one conditional per singularity.  For one removable singularity this is
   the nested form (C16_partial: the property holds for at most one removable singularity per
   expression) ... *)
Theorem C16_partial_current_code_is_right_for_one_singularity :
  forall e l s, removable l = [s] -> remove_sum e l = remove_nested e l.
Proof. intros e l s H. unfold remove_sum, remove_nested. rewrite H. reflexivity. Qed.
Print Assumptions C16_partial_current_code_is_right_for_one_singularity.

(* ... for k >= 2 it counts the expression k times at every regular point (known finding) *)
Theorem C16_refuted_current_code_multiplies_by_the_number_of_singularities :
  forall (T : Type) (N : NumOps T), SelLaws N ->
  forall rho e l,
    removable l <> [] -> (forall s, In s (removable l) -> miss N rho s) ->
    eval N rho (remove_sum e l) = times N (length (removable l)) (eval N rho e).
Proof. exact @sum_regular. Qed.
Print Assumptions C16_refuted_current_code_multiplies_by_the_number_of_singularities.

Theorem C16_reals_satisfy_the_selection_laws : SelLaws ROps.
Proof. exact ROps_sel. Qed.
Print Assumptions C16_reals_satisfy_the_selection_laws.

(* computed witness over the rationals: two removable singularities (x = 0, y = 0), regular point
   x = y = 1, expression x + y: the summed form gives 4, the nested form 2 *)
Definition s0 (x : string) := {| s_var := x; s_val := ENum 0%Q true; s_repl := ENum 1%Q true; s_infinite := false |}.
Example C16_witness :
  Qc_eq_bool (eval QcOps (fun _ => Q2Qc 1) (remove_sum (EAdd (EVar "x") (EVar "y")) [s0 "x"; s0 "y"])) (Q2Qc 4) = true
  /\ Qc_eq_bool (eval QcOps (fun _ => Q2Qc 1) (remove_nested (EAdd (EVar "x") (EVar "y")) [s0 "x"; s0 "y"])) (Q2Qc 2) = true.
Proof. vm_compute. split; reflexivity. Qed.
