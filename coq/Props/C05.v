(* C05 — Explicit Euler step equals states + dt * rhs. *)
From GX Require Import Base Expr Topo Ode Target Sem Codegen Load Valid MirrorValid LoadWf Run Carriers Theory Examples.
From Coq Require Import QArith.
Close Scope Q_scope.
Open Scope string_scope.
Open Scope list_scope.

(* For a validated Euler program and a validated rhs program of the same model: slot i of the
   Euler result is  states[i] + dt * rhs[i]  - exactly, in any carrier whose + and * are
   commutative (reals, rationals, IEEE doubles). *)
Theorem C05_euler_is_states_plus_dt_times_rhs :
  forall (T : Type) (N : NumOps T) (o : ode) ss (inp : inputs T) with_dt fe fr,
    CommOps N -> with_dt = true ->
    sizes_ok o ss inp -> reserved_free o inp with_dt = true ->
    states_clean o ss inp with_dt = true -> NoDup ss ->
    valid_euler o ss inp with_dt fe = true -> valid_rhs o ss inp with_dt fr = true ->
    exists oe orr,
      exec N fe with_dt inp = Some oe /\ exec N fr with_dt inp = Some orr
      /\ length oe = length ss /\ length orr = length ss
      /\ forall i, i < length ss ->
           exists sv fv, nth_error (in_states inp) i = Some sv /\ nth_error orr i = Some fv
                         /\ nth_error oe i = Some (add N sv (mul N (in_dt inp) fv)).
Proof. exact @euler_is_rhs_step. Qed.
Print Assumptions C05_euler_is_states_plus_dt_times_rhs.

(* with dt = 0 the input states are returned (carriers satisfying the ring laws 0*a = 0, a+0 = a) *)
Theorem C05_dt_zero_returns_the_states :
  forall (T : Type) (N : NumOps T) (o : ode) ss (inp : inputs T) with_dt fe,
    RingLaws N -> with_dt = true -> in_dt inp = ofQ N 0%Q ->
    sizes_ok o ss inp -> reserved_free o inp with_dt = true ->
    states_clean o ss inp with_dt = true -> NoDup ss ->
    valid_euler o ss inp with_dt fe = true ->
    exec N fe with_dt inp = Some (in_states inp).
Proof. exact @euler_dt0. Qed.
Print Assumptions C05_dt_zero_returns_the_states.

Theorem C05_rationals_satisfy_the_ring_laws : RingLaws QcOps.
Proof. exact QcOps_ring. Qed.
Print Assumptions C05_rationals_satisfy_the_ring_laws.

(* the mirror of schemes.explicit_euler is a verified compiler: for every well-formed model (wf_gen with
   dt reserved) it generates a function that passes the validator and returns
   states[i] + dt * (meaning of d<state i>_dt) in slot i, for every carrier with commutative + and * *)
Theorem C05_mirror_euler_is_correct_for_every_well_formed_model :
  forall (T : Type) (N : NumOps T) (o : ode) ru name order ss f (inp : inputs T),
    CommOps N ->
    sorted_states o = Some ss -> wf_gen o ss true = true ->
    gen_euler o ru name order = Some f ->
    sizes_ok o ss inp ->
    valid_euler o ss inp true f = true
    /\ exists out,
        exec N f true inp = Some out
        /\ length out = length ss
        /\ forall i s, nth_error ss i = Some s ->
             exists sv fv,
               nth_error (in_states inp) i = Some sv
               /\ Sem N o ss inp true (deriv_name_of s) fv
               /\ nth_error out i = Some (add N sv (mul N (in_dt inp) fv)).
Proof. exact @mirror_euler_correct. Qed.
Print Assumptions C05_mirror_euler_is_correct_for_every_well_formed_model.

(* and from the text: every accepted item list whose names avoid dt, t, time compiles to such a step *)
Theorem C05_accepted_text_compiles_to_a_correct_euler_step :
  forall (T : Type) (N : NumOps T) items o ru name order ss f (inp : inputs T),
    CommOps N ->
    load items = Ok o ->
    (forall x, In x (all_names o) -> resv true x = false) ->
    sorted_states o = Some ss ->
    gen_euler o ru name order = Some f ->
    sizes_ok o ss inp ->
    exists out,
      exec N f true inp = Some out
      /\ length out = length ss
      /\ forall i s, nth_error ss i = Some s ->
           exists sv fv,
             nth_error (in_states inp) i = Some sv
             /\ Sem N o ss inp true (deriv_name_of s) fv
             /\ nth_error out i = Some (add N sv (mul N (in_dt inp) fv)).
Proof. exact @accepted_text_compiles_to_a_correct_euler_step. Qed.
Print Assumptions C05_accepted_text_compiles_to_a_correct_euler_step.

(* non-vacuity *)
Example C05_example :
  valid_euler ex_ode ex_ss ex_inp true (ex_euler false) = true
  /\ valid_rhs ex_ode ex_ss ex_inp true (ex_rhs false) = true
  /\ states_clean ex_ode ex_ss ex_inp true = true
  /\ reserved_free ex_ode ex_inp true = true
  /\ wf_gen ex_ode ex_ss true = true
  /\ exec QcOps (ex_euler false) true ex_inp <> None.
Proof. vm_compute. repeat split; try (intro; discriminate). Qed.
