(* C02 — Generated C code compiles and computes the same values as the model defines. *)
From Coq Require Import Reals QArith Qcanon.
From GX Require Import Base Expr Cback Carriers RealsC CMod.
Close Scope Q_scope. Close Scope R_scope. Close Scope Qc_scope.
Open Scope string_scope.
Open Scope list_scope.

(* The typed C99 evaluation of a right-hand side equals its real-valued meaning whenever no division
   has two integer operands and fmod is not used - over every carrier into which int embeds as a
   ring (the reals do).  Hence quotients written with a floating operand, pow / exp / fabs / floor,
   comparisons, && || !, and ?: mean in C what the model text means. *)
Theorem C02_c_value_is_the_real_value_on_the_safe_fragment :
  forall (T : Type) (N : NumOps T) (ofZ : Z -> T) (cfmod : T -> T -> T),
    IntEmbedding N ofZ ->
    forall rho e, c_safe e = true -> to_d ofZ (ceval N ofZ cfmod rho e) = eval N rho e.
Proof. exact @ceval_safe. Qed.
Print Assumptions C02_c_value_is_the_real_value_on_the_safe_fragment.

Theorem C02_int_embeds_into_the_reals : IntEmbedding ROps IZR.
Proof. exact R_int_embedding. Qed.
Print Assumptions C02_int_embeds_into_the_reals.

(* the static C type: an expression built from integer constants with + - * / and unary minus is an
   int, and evaluates as one *)
Theorem C02_integer_typed_expressions_evaluate_as_int :
  forall (T : Type) (N : NumOps T) ofZ cfmod rho e,
    is_int e = true -> exists z, ceval N ofZ cfmod rho e = CI z.
Proof. exact @ceval_type. Qed.
Print Assumptions C02_integer_typed_expressions_evaluate_as_int.

(* Refuted for what the printer emits today (recorded as known findings; computed over exact
   rationals):  (1/4)*x  is 0 in C,  (2*3)/4  is 1,  and  fmod(x, 2)  differs from the floored Mod for a
   negative operand. *)
Definition c_q (e : expr) (x : Qc) : Qc := to_d qc_ofZ (ceval QcOps qc_ofZ qc_cfmod (fun _ => x) e).
Definition i_ (z : Z) := ENum (inject_Z z) true.

Example C02_refuted_integer_quotient :
  Qc_eq_bool (c_q (EMul (EDiv (i_ 1) (i_ 4)) (EVar "x")) (Q2Qc 8)) (Q2Qc 0) = true
  /\ Qc_eq_bool (eval QcOps (fun _ => Q2Qc 8) (EMul (EDiv (i_ 1) (i_ 4)) (EVar "x"))) (Q2Qc 2) = true
  /\ Qc_eq_bool (c_q (EDiv (EMul (i_ 2) (i_ 3)) (i_ 4)) (Q2Qc 0)) (Q2Qc 1) = true
  /\ c_safe (EMul (EDiv (i_ 1) (i_ 4)) (EVar "x")) = false.
Proof. vm_compute. repeat split. Qed.

Example C02_refuted_fmod_sign :
  Qc_eq_bool (c_q (EMod (EVar "x") (i_ 2)) (Q2Qc (- 17 # 10))) (Q2Qc (- 17 # 10)) = true
  /\ Qc_eq_bool (eval QcOps (fun _ => Q2Qc (- 17 # 10)) (EMod (EVar "x") (i_ 2))) (Q2Qc (3 # 10)) = true.
Proof. vm_compute. repeat split. Qed.

(* non-vacuity of the safe fragment *)
Example C02_safe_example :
  c_safe (EMul (EDiv (ENum (1 # 1) false) (i_ 4)) (EAdd (EVar "x") (EPow (EVar "x") (i_ 2)))) = true.
Proof. reflexivity. Qed.

(* the C text printed for Mod(a, b) since the repair of the sign defect - fmod(fmod(a, b) + b, b), with C's fmod = a - b*trunc(a/b) -
   is the language's Mod (floored modulo, sign of the divisor) over the reals for every divisor other than 0; a single fmod is not *)
Theorem C02_the_printed_form_of_Mod_is_the_models_Mod :
  forall a b : R, b <> 0%R -> r_cfmod (r_cfmod a b + b) b = fmod ROps a b.
Proof. exact printed_mod_is_the_models_mod. Qed.
Print Assumptions C02_the_printed_form_of_Mod_is_the_models_Mod.
