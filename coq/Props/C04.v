(* C04 — Names and array slots agree across every generated function. *)
From GX Require Import Base Expr Topo Ode Target Sem Codegen Load Valid Run Carriers Theory Examples.
Open Scope string_scope.
Open Scope list_scope.

(* an index table without repeated names is injective onto 0..n-1 and refuses unknown names *)
Theorem C04_index_tables_are_bijections :
  forall tbl : list string,
    NoDup tbl ->
    (forall x i, index_of x tbl = Some i <-> nth_error tbl i = Some x)
    /\ (forall x i, index_of x tbl = Some i -> i < length tbl)
    /\ (forall x y i, index_of x tbl = Some i -> index_of y tbl = Some i -> x = y)
    /\ (forall i, i < length tbl -> exists x, index_of x tbl = Some i)
    /\ (forall x, ~ In x tbl <-> index_of x tbl = None).
Proof. exact index_table_bijective. Qed.
Print Assumptions C04_index_tables_are_bijections.

(* initial values: slot index(x) holds the override given for x, every other slot its default;
   the array has the declared length; an unknown keyword is refused *)
Theorem C04_init_puts_overrides_in_the_indexed_slot_only :
  forall (T : Type) (tbl : list string),
    NoDup tbl ->
    forall (kw : list (string * T)) (vals r : list T),
      length vals = length tbl ->
      apply_overrides tbl vals kw = Some r ->
      length r = length tbl
      /\ (forall k v, In (k, v) kw -> In k tbl)
      /\ forall i x, nth_error tbl i = Some x ->
           nth_error r i = match last_override x kw with
                           | Some v => Some v
                           | None => nth_error vals i
                           end.
Proof. intros T tbl H kw vals r. exact (apply_overrides_spec tbl H kw vals r). Qed.
Print Assumptions C04_init_puts_overrides_in_the_indexed_slot_only.

Theorem C04_init_refuses_unknown_names :
  forall (T : Type) (tbl : list string) (vals : list T) (kw : list (string * T)) k v,
    In (k, v) kw -> ~ In k tbl -> apply_overrides tbl vals kw = None.
Proof. exact @apply_overrides_unknown. Qed.
Print Assumptions C04_init_refuses_unknown_names.

(* rhs writes the result for state X into slot state_index(X) (the slot table [ss]) ... *)
Theorem C04_rhs_writes_slot_state_index :
  forall (T : Type) (N : NumOps T) (o : ode) ss (inp : inputs T) with_dt f,
    sizes_ok o ss inp -> reserved_free o inp with_dt = true ->
    valid_rhs o ss inp with_dt f = true ->
    exists out,
      exec N f with_dt inp = Some out
      /\ length out = length ss
      /\ forall i s, nth_error ss i = Some s ->
           exists v, nth_error out i = Some v /\ Sem N o ss inp with_dt (deriv_name_of s) v.
Proof. exact @rhs_sound. Qed.
Print Assumptions C04_rhs_writes_slot_state_index.

(* ... and monitor_values / missing_values write the value of every listed name into the slot
   the table gives it; the declared count is the array length *)
Theorem C04_monitor_writes_slot_monitor_index :
  forall (T : Type) (N : NumOps T) (o : ode) ss (inp : inputs T) with_dt tbl f,
    sizes_ok o ss inp -> reserved_free o inp with_dt = true ->
    valid_named o ss inp with_dt tbl f = true ->
    exists out,
      exec N f with_dt inp = Some out
      /\ length out = length tbl
      /\ forall i n, nth_error tbl i = Some n ->
           exists v, nth_error out i = Some v /\ Sem N o ss inp with_dt n v.
Proof. exact @named_sound. Qed.
Print Assumptions C04_monitor_writes_slot_monitor_index.

(* the argument-order option changes only the formal parameters (mirror of the generator) *)
Theorem C04_argument_order_changes_formals_only :
  forall o ru ord1 ord2 f1 f2,
    gen_rhs o ru ord1 = Some f1 -> gen_rhs o ru ord2 = Some f2 ->
    f_body f1 = f_body f2 /\ f_nret f1 = f_nret f2 /\ f_name f1 = f_name f2.
Proof. exact gen_rhs_order_only_formals. Qed.
Print Assumptions C04_argument_order_changes_formals_only.

Example C04_example :
  valid_named ex_ode ex_ss ex_inp false ex_monitor_tbl ex_monitor = true
  /\ nodupb ex_ss = true /\ nodupb ex_monitor_tbl = true.
Proof. vm_compute. repeat split. Qed.
