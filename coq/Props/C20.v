(* C20 — Symbolic right-hand side and Jacobian matrices are those of the model. *)
From Coq Require Import Reals QArith.
From GX Require Import Base Expr Topo Ode Target Sem Schemes Sympytools SympyTotal RealsC DiffR Examples.
Close Scope Q_scope. Close Scope R_scope.
Open Scope string_scope.
Open Scope list_scope.

(* every substitution round preserves the meaning, so each entry of the symbolic right-hand side has
   the value of the corresponding derivative's own expression, with every intermediate and every state
   derivative an expression reads standing for its definition - in any carrier, for any environment consistent with the definitions *)
Theorem C20_symbolic_rhs_has_the_meaning_of_the_derivatives :
  forall (T : Type) (N : NumOps T) (o : ode) (rho : string -> T),
    (forall x a, find (fun a => String.eqb (a_name a) x) (assigns o) = Some a ->
                 rho x = eval N rho (a_expr a)) ->
    forall max_tries es ord,
      sorted_names o false = Some ord ->
      rhs_matrix o max_tries = Some es ->
      map (eval N rho) es = map (eval N rho) (rhs_init o ord).
Proof. exact @rhs_matrix_meaning. Qed.
Print Assumptions C20_symbolic_rhs_has_the_meaning_of_the_derivatives.

(* whenever a right-hand side is produced, every defined name - intermediate or state derivative read by an
   expression - has been expanded: the entries are functions of states, parameters and time alone *)
Theorem C20_symbolic_rhs_is_fully_expanded :
  forall o max_tries es, rhs_matrix o max_tries = Some es -> existsb (mentions_assigned o) es = false.
Proof. exact rhs_matrix_fully_expanded. Qed.
Print Assumptions C20_symbolic_rhs_is_fully_expanded.

(* "produced for any acyclic dependency depth": whenever the model has a statement order at all (its
   assignments do not depend on each other cyclically), the right-hand side and the Jacobian are
   produced with the default bound - after at most one substitution round, because every intermediate
   was expanded after the intermediates it reads (soundness of the topological order) *)
Theorem C20_rhs_is_produced_for_any_acyclic_dependency_depth :
  forall o ord, sorted_names o false = Some ord -> exists es, rhs_matrix o (default_tries o) = Some es.
Proof. exact rhs_matrix_total. Qed.
Print Assumptions C20_rhs_is_produced_for_any_acyclic_dependency_depth.

Theorem C20_jacobian_is_produced_for_any_acyclic_dependency_depth :
  forall o ord, sorted_names o false = Some ord ->
    forall ss, sorted_states o = Some ss -> exists j, jacobian o (default_tries o) = Some j.
Proof. exact jacobian_total. Qed.
Print Assumptions C20_jacobian_is_produced_for_any_acyclic_dependency_depth.

(* the Jacobian entries are D applied to the expanded entries, and D is the derivative over the
   reals (smooth fragment, points of the domain) with all other names held fixed *)
Theorem C20_jacobian_entries_are_derivatives :
  forall (rho : string -> R) x e,
    dom rho x e ->
    Coquelicot.Derive.is_derive (K := Coquelicot.Hierarchy.R_AbsRing) (V := Coquelicot.Hierarchy.R_NormedModule)
      (fun v : R => eval ROps (upd rho x v) e) (rho x) (eval ROps rho (D x e)).
Proof. exact D_sound. Qed.
Print Assumptions C20_jacobian_entries_are_derivatives.

(* the state vector uses the slot order of the generated code: both are Ode.sorted_states *)
Theorem C20_jacobian_uses_the_generated_state_order :
  forall o mt j, jacobian o mt = Some j ->
    exists es ss, rhs_matrix o mt = Some es /\ sorted_states o = Some ss
                  /\ j = map (fun e => map (fun s => D s e) ss) es.
Proof.
  intros o mt j. unfold jacobian.
  destruct (rhs_matrix o mt) as [es|]; [|discriminate].
  destruct (sorted_states o) as [ss|]; [|discriminate].
  intros [= <-]. eauto.
Qed.
Print Assumptions C20_jacobian_uses_the_generated_state_order.

(* dependency depth: the intermediates are expanded in dependency order first, so one substitution round
   suffices for a chain of any length (computed for 20 and 40; the code as found at the pinned commit
   substituted the raw definitions at most 20 times and refused the chain of 20) *)
Fixpoint chain_name (i : nat) : string :=
  match i with O => "c" | S j => String.append (chain_name j) "x" end.
Definition chain_ode (n : nat) : ode :=
  {| o_states := [ {| d_name := "s"; d_value := lit 1; d_comps := [""]; d_unit := None; d_desc := None |} ];
     o_params := [];
     o_inters := map (fun i => {| a_name := chain_name (S i);
                                  a_expr := EAdd (EVar (chain_name i)) (lit 1);
                                  a_comps := [""]; a_unit := None; a_comment := None |}) (seq 0 n)
                 ++ [ {| a_name := "c"; a_expr := EVar "s"; a_comps := [""]; a_unit := None; a_comment := None |} ];
     o_derivs := [ {| a_name := "ds_dt"; a_expr := EVar (chain_name n); a_comps := [""]; a_unit := None; a_comment := None |} ] |}.

Example C20_depth_beyond_twenty :
  (exists es, rhs_matrix (chain_ode 20) 20 = Some es)
  /\ (exists es, rhs_matrix (chain_ode 20) (default_tries (chain_ode 20)) = Some es)
  /\ (exists es, rhs_matrix (chain_ode 40) (default_tries (chain_ode 40)) = Some es)
  /\ (exists es, rhs_matrix (chain_ode 40) 2 = Some es).
Proof. vm_compute. repeat split; eexists; reflexivity. Qed.

(* an intermediate that reads a state derivative (r = 2*dx_dt; dy_dt = r + y): the right-hand side of y is expanded
   down to states - (x*3)*2 + y - and its Jacobian row sees the dependence on x through dx_dt *)
Definition mkd n v := {| d_name := n; d_value := lit v; d_comps := [""]; d_unit := None; d_desc := None |}.
Definition mka n e := {| a_name := n; a_expr := e; a_comps := [""]; a_unit := None; a_comment := None |}.
Definition deriv_reader : ode :=
  {| o_states := [mkd "x" 1; mkd "y" 2]; o_params := [];
     o_inters := [mka "r" (EMul (EVar "dx_dt") (lit 2))];
     o_derivs := [mka "dx_dt" (EMul (EVar "x") (lit 3)); mka "dy_dt" (EAdd (EVar "r") (EVar "y"))] |}.

Example C20_a_derivative_read_by_an_intermediate_is_expanded :
  rhs_matrix deriv_reader (default_tries deriv_reader)
  = Some [EMul (EVar "x") (lit 3); EAdd (EMul (EMul (EVar "x") (lit 3)) (lit 2)) (EVar "y")].
Proof. vm_compute. reflexivity. Qed.
