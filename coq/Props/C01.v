(* C01 — Generated NumPy rhs computes exactly the derivatives the model text defines.
   Theorems only; every proof is [exact <lemma of the development>]. *)
From GX Require Import Base Expr Topo KahnSound Ode OrderSound Target Sem Codegen Load Valid MirrorValid LoadWf Run Carriers Examples Singular Parse Lex.
Open Scope string_scope.
Open Scope list_scope.

(* A function body accepted by the validator runs to completion (no NameError / IndexError), and
   slot state_index(X) of the returned array holds the documented meaning of dX_dt: the value of
   its expression with every intermediate standing for its defining expression.  For every
   numeric carrier (reals, float64, ...), every model, every dependency shape and every order of
   independent statements. *)
Theorem C01_validated_rhs_computes_the_defined_derivatives :
  forall (T : Type) (N : NumOps T) (o : ode) (ss : list string) (inp : inputs T) (with_dt : bool)
         (f : func),
    sizes_ok o ss inp -> reserved_free o inp with_dt = true ->
    valid_rhs o ss inp with_dt f = true ->
    exists out,
      exec N f with_dt inp = Some out
      /\ length out = length ss
      /\ forall i s, nth_error ss i = Some s ->
           exists v, nth_error out i = Some v /\ Sem N o ss inp with_dt (deriv_name_of s) v.
Proof. exact @rhs_sound. Qed.
Print Assumptions C01_validated_rhs_computes_the_defined_derivatives.

(* the documented meaning is a function of the name: it does not depend on statement order,
   component grouping or unused definitions *)
Theorem C01_meaning_is_unique :
  forall (T : Type) (N : NumOps T) (o : ode) ss (inp : inputs T) with_dt x v v',
    Sem N o ss inp with_dt x v -> Sem N o ss inp with_dt x v' -> v = v'.
Proof. intros T N o ss inp with_dt x v v' H H'. exact (Sem_fun N o ss inp with_dt x v H v' H'). Qed.
Print Assumptions C01_meaning_is_unique.

(* the order-free reference evaluator the correspondence check runs (extracted, over float64)
   computes that meaning *)
Theorem C01_reference_evaluator_sound :
  forall (T : Type) (N : NumOps T) (o : ode) ss (inp : inputs T) with_dt fuel x v,
    sem_eval N o ss inp with_dt fuel x = Some v -> Sem N o ss inp with_dt x v.
Proof. exact @sem_eval_sound. Qed.
Print Assumptions C01_reference_evaluator_sound.

(* a value depends only on the variables that occur in the expression *)
Theorem C01_eval_depends_on_occurring_variables_only :
  forall (T : Type) (N : NumOps T) rho rho' e,
    (forall x, In x (vars e) -> rho x = rho' x) -> eval N rho e = eval N rho' e.
Proof. exact @eval_ext. Qed.
Print Assumptions C01_eval_depends_on_occurring_variables_only.

(* the statement order: whenever ODE.sorted_assignments (graphlib's static_order on the dependency
   graph, mirrored instruction by instruction in Topo.v) returns an order, that order lists every
   assignment exactly once and every assignment after all the assignments it reads - for every
   model, every dependency shape, with and without remove_unused *)
Theorem C01_statement_order_defines_before_use :
  forall o ru ord,
    sorted_names o ru = Some ord ->
    NoDup ord
    /\ (forall n, In n ord -> In n (all_assign_names o))
    /\ (forall n, In n (all_assign_names o) ->
          ru = false \/ is_inter_name o n = false \/ used o n = true -> In n ord)
    /\ (forall pre n post, ord = pre ++ n :: post ->
          forall d, In d (deps_of o n) -> In d (all_assign_names o) -> In d pre).
Proof. exact sorted_names_sound. Qed.
Print Assumptions C01_statement_order_defines_before_use.

(* the mirror of the generator is a verified compiler: for every well-formed model (wf_gen, a boolean
   the harness evaluates on the mirror of every model the implementation generated code for) and
   both settings of remove_unused, the rhs it generates passes the validator, runs to completion
   and returns the documented meaning of every derivative in its state's slot.  The implementation's
   code is compared with this function statement by statement on every case. *)
Theorem C01_mirror_rhs_is_correct_for_every_well_formed_model :
  forall (T : Type) (N : NumOps T) (o : ode) ru order ss f (inp : inputs T),
    sorted_states o = Some ss -> wf_gen o ss false = true ->
    gen_rhs o ru order = Some f ->
    sizes_ok o ss inp ->
    valid_rhs o ss inp false f = true
    /\ exists out,
        exec N f false inp = Some out
        /\ length out = length ss
        /\ forall i s, nth_error ss i = Some s ->
             exists v, nth_error out i = Some v /\ Sem N o ss inp false (deriv_name_of s) v.
Proof. exact @mirror_rhs_correct. Qed.
Print Assumptions C01_mirror_rhs_is_correct_for_every_well_formed_model.

Theorem C01_mirror_monitor_is_correct_for_every_well_formed_model :
  forall (T : Type) (N : NumOps T) (o : ode) ru order ss ord f (inp : inputs T),
    sorted_states o = Some ss -> sorted_names o false = Some ord -> wf_gen o ss false = true ->
    gen_monitor o ru order = Some f ->
    sizes_ok o ss inp ->
    valid_named o ss inp false ord f = true
    /\ exists out,
        exec N f false inp = Some out
        /\ length out = length ord
        /\ forall i n, nth_error ord i = Some n ->
             exists v, nth_error out i = Some v /\ Sem N o ss inp false n v.
Proof. exact @mirror_monitor_correct. Qed.
Print Assumptions C01_mirror_monitor_is_correct_for_every_well_formed_model.

(* text to code, end to end for the model: every item list the loader mirror accepts, none of whose names is
   one the generated function uses for itself (t, time), compiles - with and without remove_unused - to an rhs
   that runs and returns the documented meaning of every derivative in its state's slot *)
Theorem C01_accepted_text_compiles_to_a_correct_rhs :
  forall (T : Type) (N : NumOps T) items o ru order ss f (inp : inputs T),
    load items = Ok o ->
    (forall x, In x (all_names o) -> resv false x = false) ->
    sorted_states o = Some ss ->
    gen_rhs o ru order = Some f ->
    sizes_ok o ss inp ->
    exists out,
      exec N f false inp = Some out
      /\ length out = length ss
      /\ forall i s, nth_error ss i = Some s ->
           exists v, nth_error out i = Some v /\ Sem N o ss inp false (deriv_name_of s) v.
Proof. exact @accepted_text_compiles_to_a_correct_rhs. Qed.
Print Assumptions C01_accepted_text_compiles_to_a_correct_rhs.

(* non-vacuity: the mirror's rhs for the example model (two components, unused intermediate,
   conditional, chain) is accepted, with and without removal of unused variables *)
Example C01_example_is_accepted :
  valid_rhs ex_ode ex_ss ex_inp false (ex_rhs false) = true
  /\ valid_rhs ex_ode ex_ss ex_inp false (ex_rhs true) = true
  /\ reserved_free ex_ode ex_inp false = true
  /\ wf_gen ex_ode ex_ss false = true.
Proof. vm_compute. repeat split. Qed.

(* a right-hand side that is a relation is generated (since the repairs 3a918ce / 202f462) as the conditional
   Conditional(relation, 1, 0): the same value, in every carrier in which relations give 1 or 0 and selection picks accordingly
   (the reals are one: RealsC.ROps_sel) *)
Theorem C01_a_relation_and_its_indicator_conditional_have_the_same_value :
  forall (T : Type) (N : NumOps T), SelLaws N ->
    forall rho r a b, eval N rho (ECond (ERel r a b) e_one e_zero) = eval N rho (ERel r a b).
Proof. exact @indicator_conditional_is_the_relation. Qed.
Print Assumptions C01_a_relation_and_its_indicator_conditional_have_the_same_value.

(* integer, decimal and scientific literals: the number token the lexer makes of mantissa digits m, fl of them behind the
   point, and exponent ex is the rational m * 10^(ex - fl) (in lowest terms, the form the harness obtains from Python's
   Fraction of the literal's text) *)
Theorem C01_a_literal_has_its_decimal_value :
  forall m fl ex,
    QArith_base.Qeq (lit_value m fl ex)
      (QArith_base.Qmult (QArith_base.inject_Z (Z.of_N m)) (QArith_base.Qpower (QArith_base.inject_Z 10) (Z.sub ex (Z.of_N fl)))).
Proof. exact lit_value_spec. Qed.
Print Assumptions C01_a_literal_has_its_decimal_value.

(* precedence and associativity from the characters on (computed examples of Lex.lex followed by Parse.parse_expr) *)
Theorem C01_precedence_from_characters :
  parse_string "a - b - c ** 2 ** k" =
    Some (ESub (ESub (EVar "a") (EVar "b")) (EPow (EVar "c") (EPow (ENum (QArith_base.Qmake 2 1) true) (EVar "k"))))
  /\ parse_string "-x**2 + 3*y/z*w" =
    Some (EAdd (ENeg (EPow (EVar "x") (ENum (QArith_base.Qmake 2 1) true))) (EMul (EDiv (EMul (ENum (QArith_base.Qmake 3 1) true) (EVar "y")) (EVar "z")) (EVar "w")))
  /\ parse_string "2**-x" = Some (EPow (ENum (QArith_base.Qmake 2 1) true) (ENeg (EVar "x")))
  /\ parse_string "1.5e-3*x" = Some (EMul (ENum (QArith_base.Qmake 3 2000) false) (EVar "x"))
  /\ parse_string "1e2e3" = None.
Proof. vm_compute. repeat split; reflexivity. Qed.
Print Assumptions C01_precedence_from_characters.
