(* C10 — The model does not depend on the order in which statements are written. *)
From GX Require Import Base Expr Topo KahnSound Ode OrderSound Target Sem Codegen Load Perm LoadPerm.
From Coq Require Import Permutation.
Open Scope string_scope.
Open Scope list_scope.

(* The loader collects the atoms of a text into sets.  [ops items] is the sequence of atomic insertions
   (one per entry / line and component) the loader performs for an item list; permuting blocks, entries
   inside a states / parameters block or lines inside an expressions block permutes that sequence
   (C10_the_permutations_of_the_property_permute_the_insertions).  If the first text loads, so does the
   permuted one, to an equivalent model, and everything code generation computes is identical - for the
   loader mirror and the mirror generators, whose agreement with the implementation is checked on every
   generated model and every generated permutation: *)
Theorem C10_permuted_text_loads_to_the_same_model_and_the_same_code :
  forall items1 items2 o1,
    Permutation (ops items1) (ops items2) ->
    load items1 = Ok o1 ->
    exists o2, load items2 = Ok o2
      /\ ode_equiv o1 o2
      /\ (forall ru, sorted_names o1 ru = sorted_names o2 ru)
      /\ sorted_states o1 = sorted_states o2
      /\ param_names o1 = param_names o2 /\ missing_names o1 = missing_names o2
      /\ (forall ru order, gen_rhs o1 ru order = gen_rhs o2 ru order)
      /\ (forall ru order, gen_monitor o1 ru order = gen_monitor o2 ru order)
      /\ (forall ru name order, gen_euler o1 ru name order = gen_euler o2 ru name order).
Proof. exact permuted_text_same_code. Qed.
Print Assumptions C10_permuted_text_loads_to_the_same_model_and_the_same_code.

Theorem C10_the_permutations_of_the_property_permute_the_insertions :
  (forall items1 items2, Permutation items1 items2 -> Permutation (ops items1) (ops items2))
  /\ (forall pre post comps es es', Permutation es es' ->
        Permutation (ops (pre ++ IStates comps es :: post)) (ops (pre ++ IStates comps es' :: post))
        /\ Permutation (ops (pre ++ IParams comps es :: post)) (ops (pre ++ IParams comps es' :: post)))
  /\ (forall pre post comps ls ls', Permutation ls ls' ->
        Permutation (ops (pre ++ IExprs comps ls :: post)) (ops (pre ++ IExprs comps ls' :: post))).
Proof. split; [exact ops_perm_blocks|split; [exact ops_perm_entries|exact ops_perm_lines]]. Qed.
Print Assumptions C10_the_permutations_of_the_property_permute_the_insertions.

(* the two halves separately: for ode_equiv models everything code generation computes is identical *)

Theorem C10_statement_order_and_slot_layout_do_not_depend_on_list_order :
  forall o o', ode_equiv o o' -> unique_assign_names o ->
    (forall ru, sorted_names o ru = sorted_names o' ru)
    /\ sorted_states o = sorted_states o'
    /\ state_names o = state_names o' /\ param_names o = param_names o'
    /\ inter_names o = inter_names o' /\ deriv_names o = deriv_names o'
    /\ missing_names o = missing_names o'.
Proof.
  intros o o' E U. repeat split.
  - exact (sorted_names_inv o o' E U).
  - exact (sorted_states_inv o o' E U).
  - exact (state_names_inv o o' E).
  - exact (param_names_inv o o' E).
  - exact (inter_names_inv o o' E).
  - exact (deriv_names_inv o o' E).
  - exact (missing_names_inv o o' E).
Qed.
Print Assumptions C10_statement_order_and_slot_layout_do_not_depend_on_list_order.

Theorem C10_generated_code_does_not_depend_on_list_order :
  forall o o', ode_equiv o o' -> unique_assign_names o ->
    (forall ru order, gen_rhs o ru order = gen_rhs o' ru order)
    /\ (forall ru order, gen_monitor o ru order = gen_monitor o' ru order)
    /\ (forall ru name order, gen_euler o ru name order = gen_euler o' ru name order).
Proof.
  intros o o' E U. split; [|split].
  - exact (gen_rhs_inv o o' E U).
  - exact (gen_monitor_inv o o' E U).
  - exact (gen_euler_inv o o' E U).
Qed.
Print Assumptions C10_generated_code_does_not_depend_on_list_order.

(* use before definition is allowed: a definition is found by name wherever it stands *)
Theorem C10_definitions_are_found_by_name_wherever_they_stand :
  forall o o', ode_equiv o o' -> unique_assign_names o -> forall x, find_assign o x = find_assign o' x.
Proof. exact find_assign_inv. Qed.
Print Assumptions C10_definitions_are_found_by_name_wherever_they_stand.

(* "use-before-definition in the text is allowed": whether the assignments of a model can be ordered is
   decided by the dependency relation alone - an order is found exactly when the definitions can be ranked
   (are acyclic), whatever position they have in the text; in particular a model one listing of which defines
   everything before its use is ordered from every other listing too *)
Theorem C10_an_order_exists_iff_the_definitions_are_acyclic :
  forall o ru,
    (exists ord, sorted_names o ru = Some ord)
    <-> exists rank : string -> nat,
          forall n d, In n (all_assign_names o) -> In d (deps_of o n) -> rank d < rank n.
Proof. exact sorted_names_iff_ranked. Qed.
Print Assumptions C10_an_order_exists_iff_the_definitions_are_acyclic.

Theorem C10_a_model_listed_in_dependency_order_somewhere_is_always_ordered :
  forall o ru (listing : list string),
    NoDup listing ->
    (forall n, In n (all_assign_names o) -> In n listing) ->
    (forall pre n post, listing = pre ++ n :: post -> In n (all_assign_names o) ->
       forall d, In d (deps_of o n) -> In d (all_assign_names o) -> In d pre) ->
    exists ord, sorted_names o ru = Some ord.
Proof. exact listed_in_dependency_order_is_sorted. Qed.
Print Assumptions C10_a_model_listed_in_dependency_order_somewhere_is_always_ordered.
