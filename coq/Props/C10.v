(* C10 — The model does not depend on the order in which statements are written. *)
From GX Require Import Base Expr Topo Ode Target Sem Codegen Load Perm.
From Coq Require Import Permutation.
Open Scope string_scope.
Open Scope list_scope.

(* The loader collects the atoms of a text into sets; a permutation of blocks, of entries in a
   declaration block or of lines in an expression block presents the same sets in another order,
   i.e. an [ode_equiv] model.  (That the loader mirror maps permuted item lists to ode_equiv models
   is checked by execution on every generated permutation, not proved: C10_partial.)  For
   ode_equiv models everything code generation computes is identical: *)

Theorem C10_partial_statement_order_and_slot_layout_do_not_depend_on_textual_order :
  forall o o', ode_equiv o o' -> unique_assign_names o ->
    (forall ru, sorted_names o ru = sorted_names o' ru)
    /\ sorted_states o = sorted_states o'
    /\ state_names o = state_names o' /\ param_names o = param_names o'
    /\ inter_names o = inter_names o' /\ deriv_names o = deriv_names o'
    /\ missing_names o = missing_names o'.
Proof.
  intros o o' E U. repeat split.
  - exact (sorted_names_inv o o' E U).
  - exact (sorted_states_inv o o' E U).
  - exact (state_names_inv o o' E).
  - exact (param_names_inv o o' E).
  - exact (inter_names_inv o o' E).
  - exact (deriv_names_inv o o' E).
  - exact (missing_names_inv o o' E).
Qed.
Print Assumptions C10_partial_statement_order_and_slot_layout_do_not_depend_on_textual_order.

Theorem C10_partial_generated_code_does_not_depend_on_textual_order :
  forall o o', ode_equiv o o' -> unique_assign_names o ->
    (forall ru order, gen_rhs o ru order = gen_rhs o' ru order)
    /\ (forall ru order, gen_monitor o ru order = gen_monitor o' ru order)
    /\ (forall ru name order, gen_euler o ru name order = gen_euler o' ru name order).
Proof.
  intros o o' E U. split; [|split].
  - exact (gen_rhs_inv o o' E U).
  - exact (gen_monitor_inv o o' E U).
  - exact (gen_euler_inv o o' E U).
Qed.
Print Assumptions C10_partial_generated_code_does_not_depend_on_textual_order.

(* use before definition is allowed: a definition is found by name wherever it stands *)
Theorem C10_definitions_are_found_by_name_wherever_they_stand :
  forall o o', ode_equiv o o' -> unique_assign_names o -> forall x, find_assign o x = find_assign o' x.
Proof. exact find_assign_inv. Qed.
Print Assumptions C10_definitions_are_found_by_name_wherever_they_stand.
