(* C11 — Saving a model to .ode and loading it back preserves the model. *)
From GX Require Import Base Expr Topo Ode Load Save Perm Annot.
From Coq Require Import Permutation.
Open Scope string_scope.
Open Scope list_scope.

(* The writer groups the atoms by component tuple, one block per group: the blocks together contain
   exactly the atoms of the model (nothing lost, nothing invented) ... *)
Theorem C11_partial_blocks_contain_exactly_the_atoms :
  forall (A : Type) (key : A -> list string) (l : list A), Permutation (flat_map snd (group_by key l)) l.
Proof. exact @group_by_perm. Qed.
Print Assumptions C11_partial_blocks_contain_exactly_the_atoms.

(* ... each atom in the block headed by its own components (membership is preserved) ... *)
Theorem C11_partial_every_atom_is_written_under_its_own_components :
  forall (A : Type) (key : A -> list string) (l : list A) k g a,
    In (k, g) (group_by key l) -> In a g -> key a = k.
Proof. intros A key l k g a. exact (group_by_keyed key l k g a). Qed.
Print Assumptions C11_partial_every_atom_is_written_under_its_own_components.

(* ... and the expression blocks are ordered so that no header-less block follows a headed one
   (it would be read as part of it) *)
Theorem C11_partial_no_unnamed_block_after_a_named_one :
  forall (A : Type) (g : list (list string * list A)) l1 x l2,
    unnamed_first g = l1 ++ x :: l2 -> is_unnamed (fst x) = true ->
    forall y, In y l1 -> is_unnamed (fst y) = true.
Proof. exact @unnamed_never_after_named. Qed.
Print Assumptions C11_partial_no_unnamed_block_after_a_named_one.

Theorem C11_partial_reordering_the_groups_loses_nothing :
  forall (A : Type) (g : list (list string * list A)), Permutation (unnamed_first g) g.
Proof. exact @unnamed_first_perm. Qed.
Print Assumptions C11_partial_reordering_the_groups_loses_nothing.

(* a reloaded model that presents the same definitions (in any order, with any annotation) has the
   same statement order and slot layout, hence C01-C07 and C12 transfer to it *)
Theorem C11_same_definitions_same_layout :
  forall o o', ode_equiv o o' -> unique_assign_names o ->
    (forall ru, sorted_names o ru = sorted_names o' ru) /\ sorted_states o = sorted_states o'
    /\ param_names o = param_names o'.
Proof.
  intros o o' E U. split; [|split].
  - exact (sorted_names_inv o o' E U).
  - exact (sorted_states_inv o o' E U).
  - exact (param_names_inv o o' E).
Qed.
Print Assumptions C11_same_definitions_same_layout.
(* Partial: that Load.load maps the written blocks back to the same sets, and that the expression
   printer (sympy's StrPrinter with gotranx's overrides) is read back with the same meaning, are
   checked by execution on every run (model-level round trip in the extracted code, and numeric
   comparison of the reloaded implementation model). *)
