(* C11 — Saving a model to .ode and loading it back preserves the model. *)
From GX Require Import Base Expr Topo Ode Target Sem Codegen Load Save Perm Annot LoadPerm SaveLoad Parse ParseItems Lex Line.
From Coq Require Import Permutation.
Open Scope string_scope.
Open Scope list_scope.

(* For the mirror of the writer and the loader: saving any loaded model and loading the result gives a
   model with the same states, parameters, intermediates and derivatives (values, units, descriptions,
   component tuples included - they are fields of the atoms), hence the same slot layout and the same
   generated rhs / monitor_values / Euler functions; in whatever order the writer lists the atoms.  What the
   theorem does not cover is the text level (sympy's printer and Lark's parser between items and file), which
   the check compares by execution on every model. *)
Theorem C11_saving_and_loading_a_model_preserves_it :
  forall items o S P A,
    load items = Ok o ->
    same_set S (o_states o) -> same_set P (o_params o) -> same_set A (assigns o) ->
    exists o', load (save_items S P A) = Ok o' /\ ode_equiv o o'.
Proof. exact save_then_load_gen. Qed.
Print Assumptions C11_saving_and_loading_a_model_preserves_it.

Theorem C11_the_reloaded_model_has_the_same_layout_and_code :
  forall items o,
    load items = Ok o ->
    exists o', load (save_items (o_states o) (o_params o) (assigns o)) = Ok o'
      /\ ode_equiv o o'
      /\ (forall ru, sorted_names o ru = sorted_names o' ru)
      /\ sorted_states o = sorted_states o'
      /\ param_names o = param_names o'
      /\ (forall ru order, gen_rhs o ru order = gen_rhs o' ru order)
      /\ (forall ru order, gen_monitor o ru order = gen_monitor o' ru order)
      /\ (forall ru name order, gen_euler o ru name order = gen_euler o' ru name order).
Proof. exact save_then_load_same_code. Qed.
Print Assumptions C11_the_reloaded_model_has_the_same_layout_and_code.

(* The writer groups the atoms by component tuple, one block per group: the blocks together contain
   exactly the atoms of the model (nothing lost, nothing invented) ... *)
Theorem C11_blocks_contain_exactly_the_atoms :
  forall (A : Type) (key : A -> list string) (l : list A), Permutation (flat_map snd (group_by key l)) l.
Proof. exact @group_by_perm. Qed.
Print Assumptions C11_blocks_contain_exactly_the_atoms.

(* ... each atom in the block headed by its own components (membership is preserved) ... *)
Theorem C11_every_atom_is_written_under_its_own_components :
  forall (A : Type) (key : A -> list string) (l : list A) k g a,
    In (k, g) (group_by key l) -> In a g -> key a = k.
Proof. intros A key l k g a. exact (group_by_keyed key l k g a). Qed.
Print Assumptions C11_every_atom_is_written_under_its_own_components.

(* ... and the expression blocks are ordered so that no header-less block follows a headed one
   (it would be read as part of it) *)
Theorem C11_no_unnamed_block_after_a_named_one :
  forall (A : Type) (g : list (list string * list A)) l1 x l2,
    unnamed_first g = l1 ++ x :: l2 -> is_unnamed (fst x) = true ->
    forall y, In y l1 -> is_unnamed (fst y) = true.
Proof. exact @unnamed_never_after_named. Qed.
Print Assumptions C11_no_unnamed_block_after_a_named_one.

Theorem C11_reordering_the_groups_loses_nothing :
  forall (A : Type) (g : list (list string * list A)), Permutation (unnamed_first g) g.
Proof. exact @unnamed_first_perm. Qed.
Print Assumptions C11_reordering_the_groups_loses_nothing.

(* a reloaded model that presents the same definitions (in any order, with any annotation) has the
   same statement order and slot layout, hence C01-C07 and C12 transfer to it *)
Theorem C11_same_definitions_same_layout :
  forall o o', ode_equiv o o' -> unique_assign_names o ->
    (forall ru, sorted_names o ru = sorted_names o' ru) /\ sorted_states o = sorted_states o'
    /\ param_names o = param_names o'.
Proof.
  intros o o' E U. split; [|split].
  - exact (sorted_names_inv o o' E U).
  - exact (sorted_states_inv o o' E U).
  - exact (param_names_inv o o' E).
Qed.
Print Assumptions C11_same_definitions_same_layout.
(* Partial: that Load.load maps the written blocks back to the same sets, and that the expression
   printer (sympy's StrPrinter with gotranx's overrides) is read back with the same meaning, are
   checked by execution on every run (model-level round trip in the extracted code, and numeric
   comparison of the reloaded implementation model). *)

(* the text level of a right-hand side: the expression grammar of ode.lark, as a parser over tokens that is compared
   with Lark on every expression of every generated, saved and decorated text.  Every expression of the language
   (variables that are not keywords; no "not equal", which the language lacks) can be written so that it is read back as
   exactly that expression - followed by whatever stood behind it, so also inside argument lists and parentheses - and two
   expressions written the same way are equal *)
Theorem C11_every_expression_has_a_text_that_is_read_back_as_itself :
  forall e, writable e -> parse_expr (print_expr e) = Some e.
Proof. exact parse_print. Qed.
Print Assumptions C11_every_expression_has_a_text_that_is_read_back_as_itself.

Theorem C11_written_expressions_are_read_back_in_any_context :
  forall e, writable e ->
    forall m, (6 * List.length (print_expr e) <= m)%nat ->
    forall rest, stop rest -> p_expr (P m) (print_expr e ++ rest) = Some (e, rest).
Proof. exact print_then_parse. Qed.
Print Assumptions C11_written_expressions_are_read_back_in_any_context.

Theorem C11_the_written_form_determines_the_expression :
  forall a b, writable a -> writable b -> print_expr a = print_expr b -> a = b.
Proof. exact print_expr_injective. Qed.
Print Assumptions C11_the_written_form_determines_the_expression.

(* one level closer to the file: the saved model written out as token text (every right-hand side and declared value a
   token sequence) and read by the verified parser loads to an equivalent model - for every loaded model whose saved items
   are writable, i.e. none of whose names is a keyword of the expression grammar *)
Theorem C11_the_token_text_of_the_saved_model_loads_to_an_equivalent_model :
  forall items o,
    load items = Ok o ->
    (forall i, In i (save_items (o_states o) (o_params o) (assigns o)) -> writable_item i) ->
    exists o', load_tokens (print_items (save_items (o_states o) (o_params o) (assigns o))) = Some (Ok o') /\ ode_equiv o o'.
Proof. exact save_print_load. Qed.
Print Assumptions C11_the_token_text_of_the_saved_model_loads_to_an_equivalent_model.

Theorem C11_reading_the_token_text_of_an_item_list_gives_the_item_list :
  forall items, (forall i, In i items -> writable_item i) -> parse_items (print_items items) = Some items.
Proof. exact parse_print_items. Qed.
Print Assumptions C11_reading_the_token_text_of_an_item_list_gives_the_item_list.

(* down to the characters: the lexer (Lex.lex: NUMBER, VARIABLE and operator terminals of ode.lark, white space ignored,
   longest match) reads every rendered sequence of source tokens back, and characters -> tokens -> expression inverts
   printing followed by rendering - for every writable expression and every way of spelling its tokens *)
Theorem C11_the_lexer_reads_back_every_rendered_token_sequence :
  forall l, Forall (fun t => good t = true) l -> lex (render l) = Some (map tok_of l).
Proof. exact lex_render. Qed.
Print Assumptions C11_the_lexer_reads_back_every_rendered_token_sequence.

Theorem C11_the_characters_of_a_written_expression_are_read_back_as_the_expression :
  forall e l, writable e -> Forall (fun t => good t = true) l -> map tok_of l = print_expr e ->
    parse_string (render l) = Some e.
Proof. exact parse_rendered. Qed.
Print Assumptions C11_the_characters_of_a_written_expression_are_read_back_as_the_expression.

(* the printer as it is run (Lex.render_expr: printed tokens spelled as characters - integer literals, <m>e-<k> for the
   other numbers): whenever it writes a text for a writable expression, lexing and parsing that text gives the expression;
   the harness puts these texts in the place of the right-hand sides of every model and has Lark read them *)
Theorem C11_the_text_the_printer_writes_is_read_back_as_the_expression :
  forall e s, writable e -> render_expr e = Some s -> parse_string s = Some e.
Proof. exact render_expr_parse. Qed.
Print Assumptions C11_the_text_the_printer_writes_is_read_back_as_the_expression.

Theorem C11_the_text_written_for_a_token_sequence_is_lexed_back_to_it :
  forall ts s, render_tokens ts = Some s -> lex s = Some ts.
Proof. exact render_tokens_lex. Qed.
Print Assumptions C11_the_text_written_for_a_token_sequence_is_lexed_back_to_it.

(* one assignment line: what Line.write_line writes for a name, a writable expression and any comment is read back
   (cut at "#", cut at "=", lexer, parser) as exactly that triple *)
Theorem C11_a_written_assignment_line_is_read_back :
  forall x e cm s, good_id x = true -> is_keyword x = false -> writable e ->
    write_line x e cm = Some s -> parse_line s = Some (x, e, cm).
Proof. exact parse_written_line. Qed.
Print Assumptions C11_a_written_assignment_line_is_read_back.

