(* C15 — Importing a Myokit / CellML model preserves its dynamics. *)
From GX Require Import Base Expr Capture.
Open Scope string_scope.
Open Scope list_scope.

(* The converter writes every Myokit expression with sympy and then substitutes, in three passes, the
   unique name of the referent for every reference.  Partial model: the passes are renamings of
   identifiers; Myokit's own evaluator, parser, unit system and its sympy writer are not modelled
   (their effect is compared by execution with Model.evaluate_derivatives). *)

(* if the composed renaming maps every reference to the referent's unique name, the converted
   expression means, in the converted model's environment, what the Myokit expression means *)
Theorem C15_partial_substituting_unique_names_preserves_the_meaning :
  forall (T : Type) (N : NumOps T) (r : string -> string) (rho rho' : string -> T) e,
    (forall x, In x (vars e) -> rho' (r x) = rho x) ->
    eval N rho' (rename r e) = eval N rho e.
Proof. exact @eval_rename_transport. Qed.
Print Assumptions C15_partial_substituting_unique_names_preserves_the_meaning.

Theorem C15_partial_passes_compose :
  forall r1 r2 e, rename r2 (rename r1 e) = rename (fun x => r2 (r1 x)) e.
Proof. exact rename_compose. Qed.
Print Assumptions C15_partial_passes_compose.

(* the defect that was repaired: a pass that matches nothing leaves every reference as it is, so a
   reference by local name (a nested variable) stayed a name the converted model does not define *)
Theorem C15_a_pass_that_matches_nothing_changes_nothing :
  forall e, rename (fun x => x) e = e.
Proof. exact rename_id. Qed.
Print Assumptions C15_a_pass_that_matches_nothing_changes_nothing.

Theorem C15_renaming_renames_exactly_the_references :
  forall r e, vars (rename r e) = map r (vars e).
Proof. exact vars_rename. Qed.
Print Assumptions C15_renaming_renames_exactly_the_references.
