(* C03 — Generated JAX code computes the same values, with full-size outputs. *)
From GX Require Import Base Expr Topo Ode Target Sem Codegen Valid Jax.
From Coq Require Import QArith.
Close Scope Q_scope.
Open Scope string_scope.
Open Scope list_scope.

(* The jax backend prints  values[i] = e  as  _values_i = e  and returns the first n of these names.
   For a validated function (every declared slot written exactly once) the jax function returns
   an array of the declared length, equal to what the numpy function returns; hence every theorem
   about validated numpy functions (C01, C04, C05, C06, C07, C12) transfers to jax. *)
Theorem C03_validated_function_has_full_size_output_equal_to_numpy :
  forall (T : Type) (N : NumOps T) (o : ode) ss (inp : inputs T) wd f ok,
    sizes_ok o ss inp -> reserved_free o inp wd = true ->
    valid_fun o ss inp wd f ok = true ->
    exists out, exec_jax N f wd inp = Some out /\ exec N f wd inp = Some out /\ length out = f_nret f.
Proof. exact @jax_equals_numpy. Qed.
Print Assumptions C03_validated_function_has_full_size_output_equal_to_numpy.

(* whenever the jax function returns, it returns what numpy returns *)
Theorem C03_jax_result_is_the_numpy_result :
  forall (T : Type) (N : NumOps T) f wd (inp : inputs T) out,
    exec_jax N f wd inp = Some out -> exec N f wd inp = Some out.
Proof. exact @exec_jax_le. Qed.
Print Assumptions C03_jax_result_is_the_numpy_result.

(* a declared slot that is never assigned is a NameError under jax (this is how the truncated
   monitor_values / missing_values of the unrepaired generator failed) *)
Example C03_unassigned_slot_is_an_error :
  exec_jax (T := nat) {| ofQ := fun _ => 0; cpi := 0; add := Nat.add; sub := Nat.sub; mul := Nat.mul; div := Nat.div;
              pow := Nat.pow; neg := fun x => x; fn := fun _ x => x; fmod := Nat.modulo;
              rel := fun _ _ _ => 0; bnot := fun x => x; band := Nat.mul; bor := Nat.add;
              select := fun c a b => if Nat.eqb c 0 then b else a |}
           {| f_name := "monitor_values"; f_args := []; f_nret := 2;
              f_body := [SStore 0 (ENum 1%Q true)] |} false
           {| in_t := 0; in_dt := 0; in_states := []; in_params := []; in_missing := [] |} = None.
Proof. reflexivity. Qed.
