(* C07 — Hybrid Rush-Larsen applies RL to exactly the stiff states and Euler to the rest. *)
From GX Require Import Base Expr Topo Ode Target Sem Codegen Load Valid Run Schemes Carriers Examples MirrorValid MirrorRL.
From Coq Require Import QArith.
Close Scope Q_scope.
Open Scope string_scope.
Open Scope list_scope.

(* Every validated scheme program: slot state_index(s) holds the update prescribed for s - the
   generalized Rush-Larsen update (in the mode of s) when s is stiff, the Euler update otherwise. *)
Theorem C07_validated_scheme_computes_the_prescribed_update :
  forall (T : Type) (N : NumOps T) (o : ode) ss (inp : inputs T),
    FieldLaws N ->
    forall modes stiff delta f,
    sizes_ok (extend_lin o) ss inp -> reserved_free (extend_lin o) inp true = true ->
    states_clean (extend_lin o) ss inp true = true -> NoDup ss ->
    valid_scheme o ss inp modes stiff delta f = true ->
    exists out,
      exec N f true inp = Some out
      /\ length out = length ss
      /\ forall i s, nth_error ss i = Some s ->
           exists sv fv gv,
             nth_error (in_states inp) i = Some sv
             /\ Sem N (extend_lin o) ss inp true (deriv_name_of s) fv
             /\ (slot_mode modes stiff i s = MEuler
                 \/ Sem N (extend_lin o) ss inp true (lin_name (deriv_name_of s)) gv)
             /\ nth_error out i
                = Some (slot_value N (slot_mode modes stiff i s) delta sv fv gv (in_dt inp)).
Proof. intros T N o ss inp HF. exact (scheme_sound N o ss inp HF). Qed.
Print Assumptions C07_validated_scheme_computes_the_prescribed_update.

(* the hybrid step equals the generalized step in the slots of stiff states and the Euler step in
   all other slots - for every model, every subset, every input, every carrier with field laws *)
Theorem C07_hybrid_is_slotwise_generalized_or_euler :
  forall (T : Type) (N : NumOps T) (o : ode) ss (inp : inputs T),
    FieldLaws N ->
    forall modes stiff delta fh fg fe,
    sizes_ok (extend_lin o) ss inp -> reserved_free (extend_lin o) inp true = true ->
    states_clean (extend_lin o) ss inp true = true -> NoDup ss ->
    valid_scheme o ss inp modes stiff delta fh = true ->
    valid_scheme o ss inp modes all_stiff delta fg = true ->
    valid_scheme o ss inp modes none_stiff delta fe = true ->
    exists oh og oe,
      exec N fh true inp = Some oh /\ exec N fg true inp = Some og /\ exec N fe true inp = Some oe
      /\ length oh = length ss /\ length og = length ss /\ length oe = length ss
      /\ forall i s, nth_error ss i = Some s ->
           nth_error oh i = if stiff s then nth_error og i else nth_error oe i.
Proof. intros T N o ss inp HF. exact (hybrid_slotwise N o ss inp HF). Qed.
Print Assumptions C07_hybrid_is_slotwise_generalized_or_euler.

(* names in the stiff set that are not states have no effect *)
Theorem C07_only_states_matter :
  forall (T : Type) (o : ode) ss (inp : inputs T) modes stiff stiff' delta f,
    (forall s, In s ss -> stiff s = stiff' s) ->
    valid_scheme o ss inp modes stiff delta f = valid_scheme o ss inp modes stiff' delta f.
Proof. intros T o ss inp. exact (hybrid_depends_on_states_only o ss inp). Qed.
Print Assumptions C07_only_states_matter.

(* the mirror of the Rush-Larsen generator is a verified compiler: for every well-formed model - names unique and
   not reserved also after adding the helpers d<state>_dt_linearized -, every set of stiff states and every assignment
   of modes to the states (the per-state decision Euler / guarded / plain that sympy makes and the check reads off the
   code), the generated function passes the validator and returns in every slot the value the property prescribes
   for that slot's mode, in any carrier with the field laws.  The implementation's generalized and hybrid functions
   are compared with this function statement by statement. *)
Theorem C07_mirror_rush_larsen_is_correct_for_every_well_formed_model :
  forall (T : Type) (N : NumOps T) (o : ode) ru modes stiff delta name order ss f (inp : inputs T),
    FieldLaws N ->
    sorted_states o = Some ss -> wf_gen o ss true = true ->
    NoDup (all_names (extend_lin o)) ->
    (forall x, In x (all_names (extend_lin o)) -> resv true x = false) ->
    (forall x, In x (missing_names (extend_lin o)) -> resv true x = false) ->
    missing_names (extend_lin o) = missing_names o ->
    gen_rl o ru modes stiff delta name order = Some f ->
    sizes_ok o ss inp ->
    valid_scheme o ss inp modes stiff delta f = true
    /\ exists out,
        exec N f true inp = Some out
        /\ List.length out = List.length ss
        /\ forall i s, nth_error ss i = Some s ->
             exists sv fv gv,
               nth_error (in_states inp) i = Some sv
               /\ Sem N (extend_lin o) ss inp true (deriv_name_of s) fv
               /\ (slot_mode modes stiff i s = MEuler \/ Sem N (extend_lin o) ss inp true (lin_name (deriv_name_of s)) gv)
               /\ nth_error out i = Some (slot_value N (slot_mode modes stiff i s) delta sv fv gv (in_dt inp)).
Proof. exact @mirror_rl_correct. Qed.
Print Assumptions C07_mirror_rush_larsen_is_correct_for_every_well_formed_model.
