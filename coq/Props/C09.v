(* C09 — Generated code and slot layout are reproducible across processes. *)
From GX Require Import Base Expr Topo Ode Target Sem Codegen Perm.
From Coq Require Import Permutation.
Open Scope string_scope.
Open Scope list_scope.

(* Python's set / frozenset iteration order (which changes with PYTHONHASHSEED) presents the same
   set of definitions as a different list: an [ode_equiv] model.  Everything the generators
   compute is a function of the set. *)

Theorem C09_name_sorting_is_a_function_of_the_multiset :
  forall l l' : list string, Permutation l l' -> sort_names l = sort_names l'.
Proof. exact sort_names_perm_eq. Qed.
Print Assumptions C09_name_sorting_is_a_function_of_the_multiset.

Theorem C09_statement_order_independent_of_set_iteration_order :
  forall o o', ode_equiv o o' -> unique_assign_names o ->
    forall ru, sorted_names o ru = sorted_names o' ru.
Proof. exact sorted_names_inv. Qed.
Print Assumptions C09_statement_order_independent_of_set_iteration_order.

Theorem C09_state_slot_layout_independent_of_set_iteration_order :
  forall o o', ode_equiv o o' -> unique_assign_names o -> sorted_states o = sorted_states o'.
Proof. exact sorted_states_inv. Qed.
Print Assumptions C09_state_slot_layout_independent_of_set_iteration_order.

Theorem C09_parameter_and_missing_layout_independent :
  forall o o', ode_equiv o o' -> unique_assign_names o ->
    param_names o = param_names o' /\ missing_names o = missing_names o'.
Proof. intros o o' E U. split; [exact (param_names_inv o o' E)|exact (missing_names_inv o o' E)]. Qed.
Print Assumptions C09_parameter_and_missing_layout_independent.

Theorem C09_generated_functions_independent_of_set_iteration_order :
  forall o o', ode_equiv o o' -> unique_assign_names o ->
    (forall ru order, gen_rhs o ru order = gen_rhs o' ru order)
    /\ (forall ru order, gen_monitor o ru order = gen_monitor o' ru order)
    /\ (forall ru name order, gen_euler o ru name order = gen_euler o' ru name order).
Proof.
  intros o o' E U. split; [|split].
  - exact (gen_rhs_inv o o' E U).
  - exact (gen_monitor_inv o o' E U).
  - exact (gen_euler_inv o o' E U).
Qed.
Print Assumptions C09_generated_functions_independent_of_set_iteration_order.

(* the order relation used for sorting names is total, antisymmetric and transitive - so "sorted
   by name" determines a unique sequence *)
Theorem C09_name_order_is_a_total_order :
  (forall a b, String.leb a b = true \/ String.leb b a = true)
  /\ (forall a b, String.leb a b = true -> String.leb b a = true -> a = b)
  /\ (forall a b c, String.leb a b = true -> String.leb b c = true -> String.leb a c = true).
Proof. split; [exact String.leb_total|split; [exact String.leb_antisym|exact string_leb_trans]]. Qed.
Print Assumptions C09_name_order_is_a_total_order.
