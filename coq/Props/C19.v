(* C19 — Model identifiers never collide with names the generated code uses itself. *)
From GX Require Import Base Expr Topo Ode Target Sem Capture.
Open Scope string_scope.
Open Scope list_scope.

(* In a validated function body every name is bound exactly once (no model name is captured by a
   later binding of the same name) and no bound name is one of the function's own scalar formals
   dt / t / time (no model name captures them); the unpack statements moreover bind only declared
   states / parameters / missing variables at their own slots (Sem.ok_stmt). *)
Theorem C19_validated_body_binds_each_name_once :
  forall (T : Type) (o : ode) ss (inp : inputs T) wd nret body,
    valid_body o ss inp wd nret (reserved inp wd) body = true -> NoDup (bound_names body).
Proof. exact @valid_body_binds_each_name_once. Qed.
Print Assumptions C19_validated_body_binds_each_name_once.

Theorem C19_validated_body_never_rebinds_a_formal :
  forall (T : Type) (o : ode) ss (inp : inputs T) wd nret body x,
    valid_body o ss inp wd nret (reserved inp wd) body = true ->
    In x (bound_names body) -> ~ In x (reserved inp wd).
Proof. exact @valid_body_does_not_capture_formals. Qed.
Print Assumptions C19_validated_body_never_rebinds_a_formal.

(* consistently renaming identifiers does not change values: evaluating the renamed expression is
   evaluating the original in the renamed environment, and exactly the renamed names occur *)
Theorem C19_renaming_identifiers_preserves_values :
  forall (T : Type) (N : NumOps T) r rho e,
    eval N rho (rename r e) = eval N (fun x => rho (r x)) e.
Proof. exact @eval_rename. Qed.
Print Assumptions C19_renaming_identifiers_preserves_values.

Theorem C19_renaming_renames_exactly_the_occurring_names :
  forall r e, vars (rename r e) = map r (vars e).
Proof. exact vars_rename. Qed.
Print Assumptions C19_renaming_renames_exactly_the_occurring_names.
