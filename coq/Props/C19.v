(* C19 — Model identifiers never collide with names the generated code uses itself. *)
From GX Require Import Base Expr Topo Ode Target Sem Valid Capture Jax JaxNames.
Open Scope string_scope.
Open Scope list_scope.

(* In a validated function body every name is bound exactly once (no model name is captured by a
   later binding of the same name) and no bound name is one of the function's own scalar formals
   dt / t / time (no model name captures them); the unpack statements moreover bind only declared
   states / parameters / missing variables at their own slots (Sem.ok_stmt). *)
Theorem C19_validated_body_binds_each_name_once :
  forall (T : Type) (o : ode) ss (inp : inputs T) wd nret body,
    valid_body o ss inp wd nret (reserved inp wd) body = true -> NoDup (bound_names body).
Proof. exact @valid_body_binds_each_name_once. Qed.
Print Assumptions C19_validated_body_binds_each_name_once.

Theorem C19_validated_body_never_rebinds_a_formal :
  forall (T : Type) (o : ode) ss (inp : inputs T) wd nret body x,
    valid_body o ss inp wd nret (reserved inp wd) body = true ->
    In x (bound_names body) -> ~ In x (reserved inp wd).
Proof. exact @valid_body_does_not_capture_formals. Qed.
Print Assumptions C19_validated_body_never_rebinds_a_formal.

(* consistently renaming identifiers does not change values: evaluating the renamed expression is
   evaluating the original in the renamed environment, and exactly the renamed names occur *)
Theorem C19_renaming_identifiers_preserves_values :
  forall (T : Type) (N : NumOps T) r rho e,
    eval N rho (rename r e) = eval N (fun x => rho (r x)) e.
Proof. exact @eval_rename. Qed.
Print Assumptions C19_renaming_identifiers_preserves_values.

Theorem C19_renaming_renames_exactly_the_occurring_names :
  forall r e, vars (rename r e) = map r (vars e).
Proof. exact vars_rename. Qed.
Print Assumptions C19_renaming_renames_exactly_the_occurring_names.

(* the jax backend keeps its output slots in local variables _values_<i>, as many as the function returns (more
   than there are states in monitor_values and missing_values).  The generators refuse every model name of the
   form _values_<digits>; that is sufficient: when no name a validated function binds or reads has that form,
   reading the slot variables off the final environment gives exactly the array of the numpy function - no slot
   captures a model name and no model name captures a slot, for any number of slots *)
Theorem C19_jax_slot_variables_capture_nothing_outside_the_refused_pattern :
  forall (T : Type) (N : NumOps T) (o : ode) (ss : list string) (inp : inputs T) (wd : bool) f ok,
    sizes_ok o ss inp -> reserved_free o inp wd = true ->
    valid_fun o ss inp wd f ok = true ->
    slot_free slot_name (f_body f) ->
    exists out, exec_jax_names N slot_name f wd inp = Some out /\ exec N f wd inp = Some out /\ length out = f_nret f.
Proof. exact @jax_names_equal_numpy. Qed.
Print Assumptions C19_jax_slot_variables_capture_nothing_outside_the_refused_pattern.

Theorem C19_slot_names_are_pairwise_distinct : forall i j, slot_name i = slot_name j -> i = j.
Proof. exact slot_name_inj. Qed.
Print Assumptions C19_slot_names_are_pairwise_distinct.
