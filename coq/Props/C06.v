(* C06 — Generalized Rush-Larsen step follows the exponential-integrator formula, guarded. *)
From Coq Require Import Reals QArith Qreals.
From GX Require Import Base Expr Topo Ode Target Sem Codegen Load Valid Run Schemes RealsC DiffR MirrorValid MirrorRL.
Close Scope Q_scope.
Close Scope R_scope.
Open Scope string_scope.
Open Scope list_scope.

(* A validated generalized Rush-Larsen program (every state stiff) returns per state
     x + (f/g)(exp(g dt) - 1)                                  where the guard was provably unnecessary,
     x + select(|g| > delta, (f/g)(exp(g dt) - 1), dt f)        otherwise,
     x + dt f                                                    where g is identically zero,
   with f the meaning of d<x>_dt and g the meaning of the helper d<x>_dt_linearized, whose
   definition in the extended model is the derivative D of the rate with respect to x, all other
   names held fixed.  For every carrier satisfying the field laws. *)
Theorem C06_validated_step_follows_the_formula :
  forall (T : Type) (N : NumOps T) (o : ode) ss (inp : inputs T),
    FieldLaws N ->
    forall modes delta f,
    sizes_ok (extend_lin o) ss inp -> reserved_free (extend_lin o) inp true = true ->
    states_clean (extend_lin o) ss inp true = true -> NoDup ss ->
    valid_scheme o ss inp modes all_stiff delta f = true ->
    exists out,
      exec N f true inp = Some out
      /\ length out = length ss
      /\ forall i s, nth_error ss i = Some s ->
           exists sv fv gv,
             nth_error (in_states inp) i = Some sv
             /\ Sem N (extend_lin o) ss inp true (deriv_name_of s) fv
             /\ (slot_mode modes all_stiff i s = MEuler
                 \/ Sem N (extend_lin o) ss inp true (lin_name (deriv_name_of s)) gv)
             /\ nth_error out i
                = Some (slot_value N (slot_mode modes all_stiff i s) delta sv fv gv (in_dt inp)).
Proof. intros T N o ss inp HF modes. exact (scheme_sound N o ss inp HF modes all_stiff). Qed.
Print Assumptions C06_validated_step_follows_the_formula.

(* the helper's definition is D: its free names are among those of the rate *)
Theorem C06_linearisation_reads_only_what_the_rate_reads :
  forall x e y, In y (vars (D x e)) -> In y (vars e).
Proof. exact D_vars. Qed.
Print Assumptions C06_linearisation_reads_only_what_the_rate_reads.

(* the reals satisfy the field laws the formula theorem needs *)
Theorem C06_reals_satisfy_the_field_laws : FieldLaws ROps.
Proof. exact ROps_field. Qed.
Print Assumptions C06_reals_satisfy_the_field_laws.

(* over the reals: the guarded slot is the RL formula when |g| > delta and the Euler update when
   |g| <= delta (delta honoured) ... *)
Theorem C06_guarded_slot_over_the_reals :
  forall (delta : Q) (sv fv gv dtv : R),
    slot_value ROps MGuard delta sv fv gv dtv =
    if Rlt_dec (Q2R delta) (Rabs gv)
    then (sv + fv / gv * (exp (gv * dtv) - Q2R 1))%R
    else (sv + dtv * fv)%R.
Proof. exact guarded_slot_value. Qed.
Print Assumptions C06_guarded_slot_over_the_reals.

(* ... a passed guard excludes division by zero ... *)
Theorem C06_guard_excludes_division_by_zero :
  forall g delta : R, (0 <= delta)%R -> r_nz (rel ROps Rgt (Rabs g) delta) = true -> g <> 0%R.
Proof. exact guard_excludes_zero. Qed.
Print Assumptions C06_guard_excludes_division_by_zero.

(* ... and the step is exact for rates affine in their own state *)
Theorem C06_exact_for_affine_rates :
  forall a b x dt : R, a <> 0%R ->
    (x + (a * x + b) / a * (exp (a * dt) - 1) = (x + b / a) * exp (a * dt) - b / a)%R.
Proof. exact rl_exact_for_affine. Qed.
Print Assumptions C06_exact_for_affine_rates.

(* g: the helper's defining expression D x e is, over the reals, the derivative of the rate e as a
   function of the own state x with every other name held fixed (smooth fragment, points of the
   domain) *)
Theorem C06_linearisation_is_the_derivative_with_respect_to_the_own_state :
  forall (rho : string -> R) x e,
    dom rho x e ->
    Coquelicot.Derive.is_derive (K := Coquelicot.Hierarchy.R_AbsRing) (V := Coquelicot.Hierarchy.R_NormedModule)
      (fun v : R => eval ROps (upd rho x v) e) (rho x) (eval ROps rho (D x e)).
Proof. exact D_sound. Qed.
Print Assumptions C06_linearisation_is_the_derivative_with_respect_to_the_own_state.

(* with |g| <= delta (in particular g = 0) the guarded slot is the Euler update *)
Theorem C06_guarded_slot_is_euler_when_g_is_small :
  forall (delta : Q) (sv fv gv dtv : R),
    (Rabs gv <= Q2R delta)%R -> slot_value ROps MGuard delta sv fv gv dtv = (sv + dtv * fv)%R.
Proof. exact guarded_slot_euler_when_small. Qed.
Print Assumptions C06_guarded_slot_is_euler_when_g_is_small.

(* "consequently it converges to the Euler step as dt -> 0": as a function of dt, every slot (Euler,
   guarded, plain) equals the state at dt = 0 and has slope f there, exactly as the Euler update
   x + dt*f has - the two steps differ by o(dt).  The plain formula needs g <> 0, which is what the
   guard (or the verdict that replaces it) is there for. *)
Theorem C06_step_agrees_with_euler_to_first_order_in_dt :
  forall (md : mode) (delta : Q) (x f g : R),
    (md = MPlain -> g <> 0%R) -> (0 <= Q2R delta)%R ->
    slot_value ROps md delta x f g 0%R = x
    /\ Coquelicot.Derive.is_derive (K := Coquelicot.Hierarchy.R_AbsRing) (V := Coquelicot.Hierarchy.R_NormedModule)
         (fun dt : R => slot_value ROps md delta x f g dt) 0%R f.
Proof. exact slot_first_order_is_euler. Qed.
Print Assumptions C06_step_agrees_with_euler_to_first_order_in_dt.

(* the mirror of the Rush-Larsen generator is a verified compiler: for every well-formed model - names unique and
   not reserved also after adding the helpers d<state>_dt_linearized -, every set of stiff states and every assignment
   of modes to the states (the per-state decision Euler / guarded / plain that sympy makes and the check reads off the
   code), the generated function passes the validator and returns in every slot the value the property prescribes
   for that slot's mode, in any carrier with the field laws.  The implementation's generalized and hybrid functions
   are compared with this function statement by statement. *)
Theorem C06_mirror_rush_larsen_is_correct_for_every_well_formed_model :
  forall (T : Type) (N : NumOps T) (o : ode) ru modes stiff delta name order ss f (inp : inputs T),
    FieldLaws N ->
    sorted_states o = Some ss -> wf_gen o ss true = true ->
    NoDup (all_names (extend_lin o)) ->
    (forall x, In x (all_names (extend_lin o)) -> resv true x = false) ->
    (forall x, In x (missing_names (extend_lin o)) -> resv true x = false) ->
    missing_names (extend_lin o) = missing_names o ->
    gen_rl o ru modes stiff delta name order = Some f ->
    sizes_ok o ss inp ->
    valid_scheme o ss inp modes stiff delta f = true
    /\ exists out,
        exec N f true inp = Some out
        /\ List.length out = List.length ss
        /\ forall i s, nth_error ss i = Some s ->
             exists sv fv gv,
               nth_error (in_states inp) i = Some sv
               /\ Sem N (extend_lin o) ss inp true (deriv_name_of s) fv
               /\ (slot_mode modes stiff i s = MEuler \/ Sem N (extend_lin o) ss inp true (lin_name (deriv_name_of s)) gv)
               /\ nth_error out i = Some (slot_value N (slot_mode modes stiff i s) delta sv fv gv (in_dt inp)).
Proof. exact @mirror_rl_correct. Qed.
Print Assumptions C06_mirror_rush_larsen_is_correct_for_every_well_formed_model.
