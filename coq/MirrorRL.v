(* MirrorRL.v — a mirror of the Rush-Larsen generators (schemes.generalized_rush_larsen /
   hybrid_rush_larsen as the code generator prints them) and the proof that, for every well-formed
   model and every assignment of modes to the states (Euler / guarded / plain - the decision sympy
   makes per state), the function it produces passes Schemes.valid_scheme over the model extended
   with the linearisation helpers; with Schemes.scheme_sound it therefore runs and returns in each
   slot the value the property prescribes for that mode. *)
From GX Require Import Base Expr Topo KahnSound Ode OrderSound Target Sem Codegen Valid Schemes MirrorValid.
From Coq Require Import QArith Lia Permutation.
Close Scope Q_scope.
Open Scope string_scope.
Open Scope list_scope.

Definition e_one : expr := ENum 1%Q true.
Definition rl_term (n g : string) : expr :=
  EDiv (EMul (EVar n) (ESub (EFn Fexp (EMul (EVar g) (EVar "dt"))) e_one)) (EVar g).
Definition rl_guard (g : string) (delta : Q) : expr := ERel Rgt (EFn Fabs (EVar g)) (ENum delta false).
Definition rl_update (md : mode) (delta : Q) (n : string) : expr :=
  let s := st_of n in let g := lin_name n in
  match md with
  | MEuler => euler_update n
  | MPlain => EAdd (EVar s) (rl_term n g)
  | MGuard => EAdd (EVar s) (ECond (rl_guard g delta) (rl_term n g) (EMul (EVar "dt") (EVar n)))
  end.

Fixpoint rl_body (o : ode) (modes : list mode) (stiff : string -> bool) (delta : Q)
  (l : list string) (idx : nat) : list stmt :=
  match l with
  | [] => []
  | n :: l' =>
      if is_deriv_name o n then
        match slot_mode modes stiff idx (st_of n) with
        | MEuler => SLet n (a_expr_of o n) :: SStore idx (rl_update MEuler delta n)
                    :: rl_body o modes stiff delta l' (S idx)
        | md => SLet n (a_expr_of o n) :: SLet (lin_name n) (D (st_of n) (a_expr_of o n))
                :: SStore idx (rl_update md delta n) :: rl_body o modes stiff delta l' (S idx)
        end
      else SLet n (a_expr_of o n) :: rl_body o modes stiff delta l' idx
  end.

Definition gen_rl (o : ode) (remove_unused : bool) (modes : list mode) (stiff : string -> bool)
  (delta : Q) (name order : string) : option func :=
  match sorted_states o, sorted_names o remove_unused with
  | Some ss, Some ord =>
      Some {| f_name := name;
              f_args := with_missing o (arg_list order);
              f_nret := List.length (state_names o);
              f_body := prologue o ss keep_all (Codegen.condition o remove_unused)
                        ++ rl_body o modes stiff delta ord 0 |}
  | _, _ => None
  end.

Lemma find_unique (l : list assign) a :
  NoDup (map a_name l) -> In a l -> find (fun b => String.eqb (a_name b) (a_name a)) l = Some a.
Proof.
  induction l as [|b l IH]; intros Hnd Hin; [destruct Hin|].
  simpl in *. inversion Hnd as [|? ? Hb Hnd']; subst. destruct Hin as [->|Hin].
  - rewrite String.eqb_refl. reflexivity.
  - destruct (String.eqb_spec (a_name b) (a_name a)) as [E|_]; [|apply IH; assumption].
    exfalso. apply Hb. rewrite E. apply in_map. exact Hin.
Qed.

Lemma Q_eqb_syn_refl q : Q_eqb_syn q q = true.
Proof. unfold Q_eqb_syn. rewrite Z.eqb_refl, Pos.eqb_refl. reflexivity. Qed.

Lemma stores_rl_body o modes stiff delta : forall l idx i,
  stores_at i (rl_body o modes stiff delta l idx) =
  if Nat.leb idx i && Nat.ltb i (idx + List.length (filter (is_deriv_name o) l))
  then [rl_update (slot_mode modes stiff i (st_of (nth (i - idx) (filter (is_deriv_name o) l) "")))
                  delta (nth (i - idx) (filter (is_deriv_name o) l) "")]
  else [].
Proof.
  induction l as [|n l IH]; intros idx i.
  - simpl. rewrite Nat.add_0_r. destruct (Nat.leb_spec idx i), (Nat.ltb_spec i idx); simpl; try reflexivity; lia.
  - cbn [rl_body filter]. destruct (is_deriv_name o n).
    + cbn [List.length].
      destruct (slot_mode modes stiff idx (st_of n)) eqn:Em;
        unfold stores_at in *; cbn [flat_map app]; rewrite IH;
        (destruct (Nat.eqb_spec i idx) as [->|Hne];
         [replace (idx - idx) with 0 by lia; cbn [nth app]; rewrite Em;
          destruct (Nat.leb_spec idx idx), (Nat.ltb_spec idx (idx + S (List.length (filter (is_deriv_name o) l)))); try lia;
          destruct (Nat.leb_spec (S idx) idx); try lia; reflexivity
         |destruct (Nat.leb_spec idx i), (Nat.ltb_spec i (idx + S (List.length (filter (is_deriv_name o) l)))),
                   (Nat.leb_spec (S idx) i), (Nat.ltb_spec i (S idx + List.length (filter (is_deriv_name o) l)));
          simpl; try reflexivity; try lia;
          replace (i - idx) with (S (i - S idx)) by lia; reflexivity]).
    + unfold stores_at in *. cbn [flat_map]. rewrite IH. reflexivity.
Qed.

Section RL.
  Context {T : Type} (o : ode) (ru : bool) (ss ord : list string) (inp : inputs T).
  Variables (modes : list mode) (stiff : string -> bool) (delta : Q).
  Let o' := extend_lin o.
  Hypothesis Hss : sorted_states o = Some ss.
  Hypothesis Hord : sorted_names o ru = Some ord.
  (* the model ... *)
  Hypothesis W1 : NoDup (all_names o).
  Hypothesis W3 : forall s, In s ss <-> In s (map d_name (o_states o)).
  Hypothesis W4 : forall n, In n (map a_name (o_derivs o)) -> deriv_name_of (st_of n) = n.
  (* ... and the model extended with the helpers d<state>_dt_linearized *)
  Hypothesis L1 : NoDup (all_names o').
  Hypothesis L2 : forall x, In x (all_names o') -> resv true x = false.
  Hypothesis L5 : forall x, In x (missing_names o') -> resv true x = false.
  Hypothesis LM : missing_names o' = missing_names o.

  Let isd := is_deriv_name o.
  Let dl := filter isd ord.
  Notation vb := (valid_body o' ss inp true).
  Notation oks := (ok_stmt o' ss inp true).
  Notation d0 := (reserved inp true).

  Lemma ssnd : NoDup ss.
  Proof. exact (ss_nodup o ru ss ord Hss Hord W1 W3 W4). Qed.

  Lemma W3' : forall s, In s ss <-> In s (map d_name (o_states o')).
  Proof. exact W3. Qed.

  Lemma prologue_same sk pk : prologue o' ss sk pk = prologue o ss sk pk.
  Proof. unfold prologue. rewrite LM. reflexivity. Qed.

  Lemma anames_sub x : In x (map a_name (assigns o)) -> In x (map a_name (assigns o')).
  Proof.
    unfold assigns, o', extend_lin. simpl. rewrite !map_app, !in_app_iff. tauto.
  Qed.

  Lemma names'_nodup : NoDup (map a_name (assigns o')).
  Proof. exact (proj1 (proj2 (proj2 (nd_parts_g o' L1)))). Qed.

  Lemma find_same n a : find_assign o n = Some a -> find_assign o' n = Some a.
  Proof.
    intros H. unfold find_assign in H. apply find_some in H. destruct H as [Ha Hn]. apply String.eqb_eq in Hn. subst n.
    unfold find_assign. apply find_unique; [exact names'_nodup|].
    unfold assigns, o', extend_lin in *. simpl. apply in_app_or in Ha. rewrite !in_app_iff. tauto.
  Qed.

  Lemma find_lin a : In a (o_derivs o) -> find_assign o' (lin_name (a_name a)) = Some (lin_assign a).
  Proof.
    intros H. unfold find_assign.
    change (lin_name (a_name a)) with (a_name (lin_assign a)). apply find_unique; [exact names'_nodup|].
    unfold assigns, o', extend_lin. simpl. rewrite !in_app_iff. left. right. apply in_map. exact H.
  Qed.

  Lemma a_expr_same n a : find_assign o n = Some a -> a_expr_of o' n = a_expr a.
  Proof. intros H. apply a_expr_of_eq. apply find_same. exact H. Qed.

  (* a derivative name and the assignment it names *)
  Lemma deriv_assign n : isd n = true -> exists a, In a (o_derivs o) /\ a_name a = n /\ find_assign o n = Some a.
  Proof.
    unfold isd, is_deriv_name. intros H. apply mem_In in H. apply in_map_iff in H. destruct H as [a [E Ha]].
    exists a. split; [exact Ha|]. split; [exact E|]. subst n. unfold find_assign. apply find_unique.
    - exact (proj1 (proj2 (proj2 (nd_parts_g o W1)))).
    - unfold assigns. apply in_or_app. right. exact Ha.
  Qed.

  Lemma lin_in_names n a : In a (o_derivs o) -> a_name a = n -> In (lin_name n) (map a_name (assigns o')).
  Proof.
    intros Ha <-. unfold assigns, o', extend_lin. simpl. rewrite !map_app, !in_app_iff. left. right.
    apply in_map_iff. exists (lin_assign a). split; [reflexivity|apply in_map; exact Ha].
  Qed.

  (* names of o' are pairwise distinct: an assignment name is never a helper name, and two helper names
     differ when the derivatives differ *)
  Lemma name_index_inj (l : list assign) a b : NoDup (map a_name l) -> In a l -> In b l -> a_name a = a_name b -> a = b.
  Proof.
    intros Hnd Ha Hb E. pose proof (find_unique l a Hnd Ha) as F1. pose proof (find_unique l b Hnd Hb) as F2.
    rewrite E in F1. congruence.
  Qed.

  Lemma lin_fresh n a m : In a (o_derivs o) -> a_name a = n -> In m (map a_name (assigns o)) -> lin_name n <> m.
  Proof.
    intros Ha En Hm E. apply in_map_iff in Hm. destruct Hm as [b [Eb Hb]].
    assert (Hla : In (lin_assign a) (assigns o')).
    { unfold assigns, o', extend_lin. simpl. rewrite !in_app_iff. left. right. apply in_map. exact Ha. }
    assert (Hb' : In b (assigns o')).
    { unfold assigns, o', extend_lin in *. simpl. apply in_app_or in Hb. rewrite !in_app_iff. tauto. }
    assert (Heq : lin_assign a = b).
    { apply (name_index_inj (assigns o') _ _ names'_nodup Hla Hb'). simpl. rewrite En, E, Eb. reflexivity. }
    (* b is an assignment of o and also a helper: then its name occurs twice among the names of o' *)
    subst b. clear Eb.
    pose proof names'_nodup as Hnd. unfold assigns, o', extend_lin in Hnd. simpl in Hnd. rewrite !map_app in Hnd.
    unfold assigns in Hb. apply in_app_or in Hb. destruct Hb as [Hb|Hb].
    - rewrite <- app_assoc in Hnd. apply NoDup_app_elim in Hnd. destruct Hnd as (_ & _ & Hd).
      apply (Hd (a_name (lin_assign a))); [apply in_map; exact Hb|].
      apply in_or_app. left. apply in_map. apply in_map. exact Ha.
    - apply NoDup_app_elim in Hnd. destruct Hnd as (_ & _ & Hd).
      apply (Hd (a_name (lin_assign a))); [|apply in_map; exact Hb].
      apply in_or_app. right. apply in_map. apply in_map. exact Ha.
  Qed.

  Lemma lin_inj n m : lin_name n = lin_name m -> n = m.
  Proof.
    unfold lin_name. generalize "_linearized". intros suf.
    assert (L : forall s, String.length (String.append s suf) = String.length s + String.length suf).
    { induction s; simpl; [reflexivity|]. rewrite IHs. reflexivity. }
    revert m. induction n as [|c n IH]; intros m H.
    - destruct m as [|d m]; [reflexivity|]. exfalso. pose proof (f_equal String.length H) as HL.
      rewrite !L in HL. simpl in HL. lia.
    - destruct m as [|d m].
      + exfalso. pose proof (f_equal String.length H) as HL. rewrite !L in HL. simpl in HL. lia.
      + simpl in H. injection H as -> H. f_equal. apply IH. exact H.
  Qed.

  (* ---------- the update expressions have the shapes the validator asks for ---------- *)
  Lemma is_update_rl md n : deriv_name_of (st_of n) = n -> is_update md delta (st_of n) (rl_update md delta n) = true.
  Proof.
    intros E. unfold is_update. rewrite E.
    destruct md; unfold rl_update, euler_update, is_euler, is_add2, is_guarded_term, rl_guard, is_guard, rl_term,
      is_rl_term, is_mul2, is_expm1, is_num, is_dt_mul, e_one; fold (st_of n);
      cbn -[String.eqb lin_name deriv_name_of st_of Q_eqb_syn];
      rewrite ?E, ?String.eqb_refl, ?Q_eqb_syn_refl; cbn [andb orb]; reflexivity.
  Qed.

  Lemma upd_vars md n y : In y (vars (rl_update md delta n)) ->
    y = st_of n \/ y = n \/ y = "dt" \/ (md <> MEuler /\ y = lin_name n).
  Proof.
    destruct md; unfold rl_update, euler_update, rl_term, rl_guard; fold (st_of n); intros H; simpl in H;
      decompose [or] H; subst; try contradiction; auto 8;
      right; right; right; (split; [discriminate|reflexivity]).
  Qed.

  (* ---------- the body ---------- *)
  Notation anames := (map a_name (assigns o)).

  Lemma rl_body_valid nr : forall l D idx,
    NoDup l -> (forall n, In n l -> In n anames) ->
    (forall n, In n l -> ~ In n D /\ (isd n = true -> ~ In (lin_name n) D)) ->
    (forall pre n post, l = pre ++ n :: post ->
       forall y, In y (vars (a_expr_of o n)) -> In y D \/ In y pre) ->
    In "dt" D -> (forall n, In n l -> isd n = true -> In (st_of n) D) ->
    idx + List.length (filter isd l) <= nr ->
    vb nr D (rl_body o modes stiff delta l idx) = true.
  Proof.
    induction l as [|n l IH]; intros D idx Hnd Hin Hfr Hdeps Hdt Hst Hlen; [reflexivity|].
    inversion Hnd as [|? ? Hn Hnd']; subst.
    pose proof (Hin n (or_introl eq_refl)) as Hna.
    destruct (Hfr n (or_introl eq_refl)) as [HnD HlD].
    destruct (find_assign_Some o n Hna) as (a & Hfa & Hname & _).
    assert (Hlet : oks nr D (SLet n (a_expr_of o n)) = true).
    { unfold ok_stmt. rewrite (proj2 (mem_false_In n D) HnD), (find_same n a Hfa), (a_expr_of_eq o n a Hfa), expr_eqb_refl.
      simpl. apply forallb_forall. intros y Hy. apply mem_In.
      rewrite <- (a_expr_of_eq o n a Hfa) in Hy. destruct (Hdeps [] n l eq_refl y Hy) as [H|[]]. exact H. }
    (* what the tail needs, for a set D' of names defined so far that contains n and D *)
    assert (Htail : forall (Pl : Prop) D' idx', (Pl -> isd n = true) ->
              (forall y, In y D' <-> y = n \/ In y D \/ (Pl /\ y = lin_name n)) ->
              idx' + List.length (filter isd l) <= nr ->
              vb nr D' (rl_body o modes stiff delta l idx') = true).
    { intros Pl D' idx' HPl HD' Hl. apply IH; [exact Hnd'|intros m Hm; apply Hin; right; exact Hm| | | | |exact Hl].
      - intros m Hm. destruct (Hfr m (or_intror Hm)) as [HmD HmL]. split.
        + intros Hc. apply HD' in Hc. destruct Hc as [->|[Hc|[Hd ->]]]; [contradiction|contradiction|].
          destruct (deriv_assign n (HPl Hd)) as (b & Hb & Eb & _).
          exact (lin_fresh n b (lin_name n) Hb Eb (Hin _ (or_intror Hm)) eq_refl).
        + intros Hdm Hc. apply HD' in Hc. destruct Hc as [Hc|[Hc|[Hd Hc]]].
          * destruct (deriv_assign m Hdm) as (b & Hb & Eb & _).
            exact (lin_fresh m b n Hb Eb Hna Hc).
          * exact (HmL Hdm Hc).
          * apply lin_inj in Hc. subst m. contradiction.
      - intros pre m post E y Hy.
        destruct (Hdeps (n :: pre) m post (f_equal (cons n) E) y Hy) as [H|[H|H]].
        + left. apply HD'. right. left. exact H.
        + left. apply HD'. left. symmetry. exact H.
        + right. exact H.
      - apply HD'. right. left. exact Hdt.
      - intros m Hm Hdm. apply HD'. right. left. apply Hst; [right; exact Hm|exact Hdm]. }
    cbn [rl_body]. cbn [filter] in Hlen. fold isd. fold isd in Hlen. destruct (isd n) eqn:En.
    - cbn [List.length] in Hlen. specialize (HlD eq_refl).
      destruct (deriv_assign n En) as (b & Hb & Eb & Hfb).
      assert (b = a) by congruence. subst b.
      assert (Hsn : In (st_of n) D) by (apply Hst; [left; reflexivity|exact En]).
      destruct (slot_mode modes stiff idx (st_of n)) eqn:Em.
      + (* Euler slot *)
        cbn [valid_body binds app]. rewrite Hlet. cbn [andb].
        assert (Hst1 : oks nr (n :: D) (SStore idx (rl_update MEuler delta n)) = true).
        { unfold ok_stmt. apply andb_true_iff. split; [|apply Nat.ltb_lt; lia].
          apply forallb_forall. intros y Hy. apply mem_In. apply upd_vars in Hy.
          destruct Hy as [->|[->|[->|[Hc _]]]]; [right; exact Hsn|left; reflexivity|right; exact Hdt|congruence]. }
        rewrite Hst1. cbn [andb]. apply (Htail False); [intros []| |lia].
        intros y. simpl. split; [intros [<-|H]; auto|intros [->|[H|[[] _]]]; auto].
      + (* guarded slot *)
        cbn [valid_body binds app]. rewrite Hlet. cbn [andb].
        assert (Hlin : oks nr (n :: D) (SLet (lin_name n) (Schemes.D (st_of n) (a_expr_of o n))) = true).
        { unfold ok_stmt.
          assert (Hfresh : mem (lin_name n) (n :: D) = false).
          { apply mem_false_In. intros [Hc|Hc]; [exact (lin_fresh n a n Hb Eb Hna (eq_sym Hc))|exact (HlD Hc)]. }
          rewrite Hfresh. rewrite <- Eb at 1. rewrite (find_lin a Hb). cbn [negb andb].
          assert (Hex : a_expr (lin_assign a) = Schemes.D (st_of n) (a_expr_of o n)).
          { simpl. rewrite Eb. fold (st_of n). rewrite (a_expr_of_eq o n a Hfa). reflexivity. }
          rewrite Hex, expr_eqb_refl. cbn [andb]. apply forallb_forall. intros y Hy. apply mem_In.
          apply D_vars in Hy. destruct (Hdeps [] n l eq_refl y Hy) as [H|[]]. right. exact H. }
        rewrite Hlin. cbn [andb].
        assert (Hst1 : oks nr (lin_name n :: n :: D) (SStore idx (rl_update MGuard delta n)) = true).
        { unfold ok_stmt. apply andb_true_iff. split; [|apply Nat.ltb_lt; lia].
          apply forallb_forall. intros y Hy. apply mem_In. apply upd_vars in Hy.
          destruct Hy as [->|[->|[->|[_ ->]]]]; [right; right; exact Hsn|right; left; reflexivity|right; right; exact Hdt|left; reflexivity]. }
        rewrite Hst1. cbn [andb]. apply (Htail True); [intros _; reflexivity| |lia].
        intros y. simpl. split; [intros [<-|[<-|H]]; auto|intros [->|[H|[_ ->]]]; auto].
      + (* plain slot *)
        cbn [valid_body binds app]. rewrite Hlet. cbn [andb].
        assert (Hlin : oks nr (n :: D) (SLet (lin_name n) (Schemes.D (st_of n) (a_expr_of o n))) = true).
        { unfold ok_stmt.
          assert (Hfresh : mem (lin_name n) (n :: D) = false).
          { apply mem_false_In. intros [Hc|Hc]; [exact (lin_fresh n a n Hb Eb Hna (eq_sym Hc))|exact (HlD Hc)]. }
          rewrite Hfresh. rewrite <- Eb at 1. rewrite (find_lin a Hb). cbn [negb andb].
          assert (Hex : a_expr (lin_assign a) = Schemes.D (st_of n) (a_expr_of o n)).
          { simpl. rewrite Eb. fold (st_of n). rewrite (a_expr_of_eq o n a Hfa). reflexivity. }
          rewrite Hex, expr_eqb_refl. cbn [andb]. apply forallb_forall. intros y Hy. apply mem_In.
          apply D_vars in Hy. destruct (Hdeps [] n l eq_refl y Hy) as [H|[]]. right. exact H. }
        rewrite Hlin. cbn [andb].
        assert (Hst1 : oks nr (lin_name n :: n :: D) (SStore idx (rl_update MPlain delta n)) = true).
        { unfold ok_stmt. apply andb_true_iff. split; [|apply Nat.ltb_lt; lia].
          apply forallb_forall. intros y Hy. apply mem_In. apply upd_vars in Hy.
          destruct Hy as [->|[->|[->|[_ ->]]]]; [right; right; exact Hsn|right; left; reflexivity|right; right; exact Hdt|left; reflexivity]. }
        rewrite Hst1. cbn [andb]. apply (Htail True); [intros _; reflexivity| |lia].
        intros y. simpl. split; [intros [<-|[<-|H]]; auto|intros [->|[H|[_ ->]]]; auto].
    - cbn [valid_body binds app]. rewrite Hlet. cbn [andb]. apply (Htail False); [intros []| |exact Hlen].
      intros y. simpl. split; [intros [<-|H]; auto|intros [->|[H|[[] _]]]; auto].
  Qed.

  (* ---------- the whole function ---------- *)
  Notation pk := (Codegen.condition o ru).
  Notation Dp := (defs_after (prologue o' ss keep_all pk) d0).

  Lemma not_in_Dp x : In x (map a_name (assigns o')) -> ~ In x Dp.
  Proof.
    intros Hx Hc. apply (prologue_defs_g o' true ss inp) in Hc.
    destruct (nd_parts_g o' L1) as (_ & _ & _ & _ & Hsa & Hpa).
    destruct Hc as [Hc|[[_ Hc]|[[_ Hc]|Hc]]].
    - rewrite (L2 x (in_all_a_g o' x Hx)) in Hc. discriminate.
    - apply W3' in Hc. exact (Hsa x Hc Hx).
    - unfold param_names in Hc. rewrite sort_names_In in Hc. exact (Hpa x Hc Hx).
    - destruct (missing_unknown_g o' x Hc) as (_ & _ & Ha & _). contradiction.
  Qed.

  Lemma deps_in_Dp pre n post :
    ord = pre ++ n :: post -> forall y, In y (vars (a_expr_of o n)) -> In y Dp \/ In y pre.
  Proof.
    destruct (ord_sound o ru ord Hord) as (_ & Oin & _ & Otopo). intros E y Hy.
    assert (Hn : In n ord) by (rewrite E; apply in_elt).
    destruct (find_assign_Some o n (Oin n Hn)) as (a & Hfa & _ & Haa).
    rewrite (a_expr_of_eq o n a Hfa) in Hy.
    destruct (known_symbol o y) eqn:Ek.
    - unfold known_symbol in Ek.
      destruct (mem y (map a_name (assigns o))) eqn:Ea.
      + right. apply mem_In in Ea. apply (Otopo pre n post E y); [|exact Ea].
        unfold deps_of. rewrite Hfa. unfold adeps. rewrite sort_names_In, dedup_In. exact Hy.
      + left. apply (prologue_defs_g o' true ss inp). rewrite orb_false_r in Ek.
        apply orb_true_iff in Ek. destruct Ek as [Ek|Et].
        * apply orb_true_iff in Ek. destruct Ek as [Ek|Etime].
          -- apply orb_true_iff in Ek. destruct Ek as [Ep|Es].
             ++ right. right. left. split; [exact (keep_used o ru n a y Hfa Hy)|].
                apply mem_In in Ep. unfold param_names. rewrite sort_names_In. exact Ep.
             ++ right. left. split; [reflexivity|]. apply W3. apply mem_In. exact Es.
          -- left. unfold resv, reserved_time. rewrite Etime, !orb_true_r. reflexivity.
        * left. unfold resv, reserved_time. rewrite Et, !orb_true_r. reflexivity.
    - left. apply (prologue_defs_g o' true ss inp). right. right. right. rewrite LM. apply missing_names_spec.
      split; [exists a; split; assumption|exact Ek].
  Qed.

  Theorem gen_rl_valid name order f :
    gen_rl o ru modes stiff delta name order = Some f ->
    valid_scheme o ss inp modes stiff delta f = true.
  Proof.
    unfold gen_rl. rewrite Hss, Hord. intros H. injection H as <-.
    unfold valid_scheme, valid_fun. cbn [f_nret f_body]. fold o'. rewrite <- (prologue_same keep_all pk).
    destruct (ord_sound o ru ord Hord) as (Ond & Oin & _ & _).
    pose proof (ss_length o ru ss ord Hss Hord W1 W3 W4) as Hsl.
    pose proof (dl_length o ru ss ord Hss Hord W1 W3) as Hdl.
    repeat (apply andb_true_iff; split).
    - apply Nat.eqb_eq. symmetry. exact Hsl.
    - rewrite valid_body_app, (prologue_valid_g o' true ss inp L1 L2 W3' ssnd L5 keep_all pk). cbn [andb].
      apply rl_body_valid; [exact Ond|exact Oin| |exact deps_in_Dp| | |].
      + intros n Hn. split.
        * apply not_in_Dp, anames_sub, Oin, Hn.
        * intros Hd. destruct (deriv_assign n Hd) as (a & Ha & Ea & _). apply not_in_Dp. exact (lin_in_names n a Ha Ea).
      + apply (prologue_defs_g o' true ss inp). left. reflexivity.
      + intros n Hn Hd. apply (prologue_defs_g o' true ss inp). right. left. split; [reflexivity|].
        rewrite (ss_eq o ru ss ord Hss Hord W1 W3). apply in_map. apply filter_In. split; [exact Hn|exact Hd].
      + fold isd. unfold isd. rewrite Hdl, Hsl. simpl. apply le_n.
    - unfold slots_ok. apply forallb_forall. intros i Hi. apply in_seq in Hi.
      assert (Hidl : i < List.length (filter (is_deriv_name o) ord)) by (rewrite Hdl, Hsl; lia).
      unfold stores_at. rewrite flat_map_app. fold (stores_at i (prologue o' ss keep_all pk)).
      fold (stores_at i (rl_body o modes stiff delta ord 0)).
      rewrite (prologue_no_store_g o' ss), stores_rl_body. cbn [app].
      destruct (Nat.leb_spec 0 i) as [_|]; [|lia].
      destruct (Nat.ltb_spec i (0 + List.length (filter (is_deriv_name o) ord))) as [_|]; [|lia].
      cbn [andb]. rewrite Nat.sub_0_r.
      destruct (nth_dl o ru ss ord Hss Hord W1 W3 i Hidl) as [Hd Hs].
      unfold ok_scheme. rewrite Hs. pose proof (W4 _ Hd) as E4. rewrite E4.
      rewrite (is_update_rl _ _ E4). cbn [andb]. unfold is_deriv_name. apply mem_In. exact Hd.
  Qed.
End RL.

(* ---------- the generated Rush-Larsen function computes the prescribed slot values ---------- *)
Theorem mirror_rl_correct {T} (N : NumOps T) (o : ode) ru modes stiff delta name order ss f (inp : inputs T) :
  FieldLaws N ->
  sorted_states o = Some ss -> wf_gen o ss true = true ->
  NoDup (all_names (extend_lin o)) ->
  (forall x, In x (all_names (extend_lin o)) -> resv true x = false) ->
  (forall x, In x (missing_names (extend_lin o)) -> resv true x = false) ->
  missing_names (extend_lin o) = missing_names o ->
  gen_rl o ru modes stiff delta name order = Some f ->
  sizes_ok o ss inp ->
  valid_scheme o ss inp modes stiff delta f = true
  /\ exists out,
      exec N f true inp = Some out
      /\ List.length out = List.length ss
      /\ forall i s, nth_error ss i = Some s ->
           exists sv fv gv,
             nth_error (in_states inp) i = Some sv
             /\ Sem N (extend_lin o) ss inp true (deriv_name_of s) fv
             /\ (slot_mode modes stiff i s = MEuler \/ Sem N (extend_lin o) ss inp true (lin_name (deriv_name_of s)) gv)
             /\ nth_error out i = Some (slot_value N (slot_mode modes stiff i s) delta sv fv gv (in_dt inp)).
Proof.
  intros HF Hss Hwf L1 L2 L5 LM Hgen Hsz.
  destruct (wf_gen_spec o ss true Hwf) as (W1 & W2 & W3 & W4 & W5).
  assert (Hord : exists ord, sorted_names o ru = Some ord).
  { unfold gen_rl in Hgen. rewrite Hss in Hgen. destruct (sorted_names o ru) as [ord|]; [eauto|discriminate]. }
  destruct Hord as [ord Hord].
  pose proof (gen_rl_valid o ru ss ord inp modes stiff delta Hss Hord W1 W3 W4 L1 L2 L5 LM name order f Hgen) as Hv.
  split; [exact Hv|].
  pose proof (ss_nodup o ru ss ord Hss Hord W1 W3 W4) as Hnd.
  destruct (nd_parts_g (extend_lin o) L1) as (_ & _ & _ & _ & Hsa & _).
  apply (scheme_sound N o ss inp HF modes stiff delta f); [| | |exact Hnd|exact Hv].
  - destruct Hsz as (S1 & S2 & S3). split; [exact S1|]. split; [exact S2|]. rewrite LM. exact S3.
  - unfold reserved_free. apply forallb_forall. intros r Hr. apply negb_true_iff.
    unfold is_assign. rewrite find_assign_None; [reflexivity|]. intros Hc.
    assert (Hrt : resv true r = true) by (rewrite <- reserved_mem with (inp := inp); apply mem_In; exact Hr).
    rewrite (L2 r (in_all_a_g _ r Hc)) in Hrt. discriminate.
  - unfold states_clean. apply forallb_forall. intros s Hs. apply andb_true_iff.
    assert (Hsn : In s (map d_name (o_states (extend_lin o)))) by (apply W3; exact Hs).
    split; apply negb_true_iff.
    + unfold is_assign. rewrite find_assign_None; [reflexivity|]. exact (Hsa s Hsn).
    + rewrite reserved_mem. exact (L2 s (in_all_s_g _ s Hsn)).
Qed.

Print Assumptions mirror_rl_correct.
